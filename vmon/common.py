"""Observation collector shared by all property monitors.

Every emsarray call made by a driver goes through Obs.call / Obs.raises, so that
 * an unexpected exception out of emsarray on a valid generated input is recorded as a violation
   (the property promises a result), with the traceback tail for triage;
 * an exception anywhere else in a case body is a *harness* error and makes the run inconclusive.
"""
import collections
import hashlib
import json
import traceback
import warnings

import numpy

MAX_STORED_VIOLATIONS = 80
MAX_STORED_PER_MECH = 10
MAX_SAMPLES = 4


class Failed:
    """Sentinel returned by Obs.call when the call raised."""
    def __init__(self, exc):
        self.exc = exc

    def __bool__(self):
        return False


def jsonable(obj, depth=0):
    if depth > 8:
        return repr(obj)
    if isinstance(obj, (str, bool)) or obj is None:
        return obj
    if isinstance(obj, (int, numpy.integer)):
        return int(obj)
    if isinstance(obj, (float, numpy.floating)):
        f = float(obj)
        if f != f:
            return 'nan'
        if f in (float('inf'), float('-inf')):
            return repr(f)
        return f
    if isinstance(obj, numpy.ndarray):
        if obj.size > 64:
            return {'ndarray': list(obj.shape), 'head': jsonable(obj.ravel()[:16].tolist(), depth + 1)}
        return jsonable(obj.tolist(), depth + 1)
    if isinstance(obj, dict):
        return {str(k): jsonable(v, depth + 1) for k, v in obj.items()}
    if isinstance(obj, (list, tuple, set, frozenset)):
        seq = list(obj)
        if len(seq) > 64:
            return [jsonable(v, depth + 1) for v in seq[:32]] + ['... %d more' % (len(seq) - 32)]
        return [jsonable(v, depth + 1) for v in seq]
    return repr(obj)[:300]


class Obs:
    def __init__(self, prop, tier, seed):
        self.prop = prop
        self.tier = tier
        self.seed = seed
        self.evaluations = 0
        self.comparisons = 0
        self.classes = collections.Counter()
        self.expected_errors = collections.Counter()
        self.sigs = set()
        self.samples = []
        self.violations = []
        self.violation_count = 0
        self.mech_counts = collections.Counter()
        self.harness_errors = []
        self.inconclusive = []
        self.contracts = collections.Counter()
        self.extra = {}
        self.cases_run = 0
        self._case = None

    # ---- case bookkeeping -------------------------------------------------
    def begin_case(self, spec):
        self._case = spec
        self.cases_run += 1

    def sample(self, obj):
        if len(self.samples) < MAX_SAMPLES:
            self.samples.append(jsonable(obj))

    def sig(self, *parts):
        """Register one distinct non-trivial case signature (hashed)."""
        h = hashlib.blake2b(repr(parts).encode(), digest_size=8).hexdigest()
        self.sigs.add(h)

    def cls(self, name, n=1):
        self.classes[name] += n

    def evaluation(self, n=1):
        self.evaluations += n

    def ok(self, n=1):
        self.comparisons += n

    # ---- verdict recording ---------------------------------------------------
    def fail(self, what, detail=None, mech=None):
        self.comparisons += 1
        self.violation_count += 1
        self.mech_counts[mech or 'unclassified'] += 1
        # per-mechanism cap: a frequent (possibly known) mechanism must not crowd out the witnesses of a rare one
        if self.mech_counts[mech or 'unclassified'] <= MAX_STORED_PER_MECH and len(self.violations) < MAX_STORED_VIOLATIONS:
            self.violations.append({
                'property': self.prop, 'what': what, 'mech': mech,
                'detail': jsonable(detail), 'case': jsonable(self._case),
            })

    def expect(self, cond, what, detail=None, mech=None):
        if cond:
            self.comparisons += 1
            return True
        if callable(detail):
            detail = detail()
        self.fail(what, detail, mech)
        return False

    def expect_equal(self, got, want, what, mech=None):
        return self.expect(got == want, what, lambda: {'got': got, 'want': want}, mech)

    def call(self, what, fn, *args, mech=None, **kwargs):
        """Call into emsarray; an exception is a violation ('must return a result')."""
        self.evaluations += 1
        try:
            return fn(*args, **kwargs)
        except Exception as exc:  # noqa: BLE001
            tb = traceback.format_exc().strip().splitlines()[-12:]
            m = mech(exc) if callable(mech) else mech
            self.fail('unexpected exception from %s: %s: %s' % (what, type(exc).__name__, str(exc)[:300]),
                      {'traceback': tb}, m)
            return Failed(exc)

    def raises(self, what, fn, *args, exc_types=(Exception,), mech=None, **kwargs):
        """Call into emsarray where the property demands an error; returning is the violation."""
        self.evaluations += 1
        try:
            result = fn(*args, **kwargs)
        except exc_types as exc:
            self.comparisons += 1
            self.expected_errors[what] += 1
            return exc
        except Exception as exc:  # noqa: BLE001
            self.fail('%s raised %s instead of %s' % (
                what, type(exc).__name__, '/'.join(t.__name__ for t in exc_types)),
                {'message': str(exc)[:300]}, mech)
            return None
        self.fail('%s returned instead of raising' % what, {'returned': result}, mech)
        return None

    def harness_error(self, where, exc):
        tb = traceback.format_exc().strip().splitlines()[-14:]
        if len(self.harness_errors) < 10:
            self.harness_errors.append({'where': where, 'error': '%s: %s' % (type(exc).__name__, exc),
                                        'traceback': tb, 'case': jsonable(self._case)})
        else:
            self.harness_errors.append({'where': where})

    def dump(self):
        return {
            'evaluations': self.evaluations, 'comparisons': self.comparisons,
            'classes': dict(self.classes), 'expected_errors': dict(self.expected_errors),
            'sigs': sorted(self.sigs), 'samples': self.samples,
            'violations': self.violations, 'violation_count': self.violation_count,
            'mech_counts': dict(self.mech_counts),
            'harness_errors': self.harness_errors, 'inconclusive': self.inconclusive,
            'contracts': dict(self.contracts), 'extra': jsonable(self.extra),
            'cases_run': self.cases_run,
        }


class quiet_warnings(warnings.catch_warnings):
    """Capture warnings raised while calling emsarray so drivers can inspect them."""
    def __init__(self):
        super().__init__(record=True)

    def __enter__(self):
        log = super().__enter__()
        warnings.simplefilter('always')
        return log


def nan_equal(a, b):
    """Bit-for-bit style equality of two arrays, treating NaN == NaN; shapes must agree."""
    a = numpy.asarray(a)
    b = numpy.asarray(b)
    if a.shape != b.shape:
        return False
    if a.dtype.kind in 'fc' or b.dtype.kind in 'fc':
        return bool(numpy.array_equal(a.astype(float), b.astype(float), equal_nan=True))
    return bool(numpy.array_equal(a, b))
