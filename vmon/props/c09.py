"""C09 - clipped and subsetted datasets remain valid datasets with unchanged geometry."""
from . import clipwork

ANCHORS = [
    'emsarray.conventions.ugrid:update_connectivity',
    'emsarray.conventions.ugrid:_masked_integer_data_array',
    'emsarray.conventions.ugrid:UGrid.apply_clip_mask',
    'emsarray.masking:mask_grid_dataset',
    'emsarray.conventions.arakawa_c:c_mask_from_centres',
    'emsarray.conventions.grid:CFGrid.make_clip_mask',
    'emsarray.conventions._base:Convention.select_variables',
    'emsarray.conventions.grid:CFGrid.get_all_geometry_names',
    'emsarray.conventions.arakawa_c:ArakawaC.get_all_geometry_names',
    'emsarray.conventions.ugrid:UGrid.get_all_geometry_names',
]

META = {
    'totals': (240, 14000),
    'rule': ('same clipping workload as C08 (all conventions, CF coordinates as coordinates or plain variables, meshes 0/1-based with '
             'all 16 subsets of optional connectivity, every fill representation, transposed tables); after each clip: convention class '
             'of the result, save with ems.to_netcdf + reopen, polygons of selected cells vs the model rings at their new positions '
             '(explicit geometry only), every output polygon is an original polygon, each connectivity table decoded independently vs the '
             'model table restricted to survivors and renumbered by rank, index base / dimension order / on-disk integer type preserved, '
             'select_variables(random subset) keeps class, polygons and geometry variables'),
    'min': {'evaluations': 800, 'distinct': 150,
            'classes': {'geometry:explicit': 100, 'geometry:derived(class/centres/reopen only)': 10, 'table:face_node': 30,
                        'table:edge_node': 10, 'table:face_edge': 10, 'table:edge_face': 10, 'table:face_face': 10,
                        'history:via-file': 30, 'source:disk': 20}},
    'must_reach': ['emsarray.conventions.ugrid:update_connectivity', 'emsarray.conventions._base:Convention.select_variables',
                   'emsarray.masking:mask_grid_dataset'],
    'assumptions': ['CF grids without stored bounds are only checked for class, centres and reopening (edge cells are legitimately re-synthesised)',
                    'datasets carry a time axis (saving a dataset without one is C17\'s subject)'],
}


def run(ctx):
    clipwork.run(ctx, 'validity', META)
