"""C11 - convention detection and binding are deterministic and stable.

Three monitors in one module:
 (a) detection   - generated datasets of the five conventions and single-feature near-misses, compared with an executable
                   restatement of the documented matching rule (rule() below, reads only the xarray containers I built);
                   repeated calls, a variable-order shuffled copy and fresh interpreters under four hash seeds must agree.
 (b) registration- 1..3 dummy conventions with chosen specificities registered in every order; the registry is saved and
                   restored around every case.
 (c) histories   - recorded op histories over two dataset handles, checked afterwards against a small sequential model.
"""
import contextlib
import itertools

import numpy
import xarray

from ..common import Failed, quiet_warnings
from ..model import CONVENTIONS
from ..oracles import fresh
from ..rng import chance, pick

ANCHORS = [
    'emsarray.conventions._registry:ConventionRegistry.match_conventions',
    'emsarray.conventions._registry:ConventionRegistry.guess_convention',
    'emsarray.conventions._registry:ConventionRegistry.conventions',
    'emsarray.conventions._registry:ConventionRegistry.add_convention',
    'emsarray.conventions._registry:get_dataset_convention',
    'emsarray.conventions._registry:register_convention',
    'emsarray.accessors:ems_accessor',
    'emsarray.state:State.get',
    'emsarray.state:State.bind_convention',
    'emsarray.state:State.is_bound',
    'emsarray.conventions._base:Convention.bind',
    'emsarray.conventions._base:Convention.__init__',
    'emsarray.conventions.grid:CFGrid1D.check_dataset',
    'emsarray.conventions.grid:CFGrid2D.check_dataset',
    'emsarray.conventions.grid:CFGridTopology.latitude_name',
    'emsarray.conventions.grid:CFGridTopology.longitude_name',
    'emsarray.conventions.shoc:ShocSimple.check_dataset',
    'emsarray.conventions.arakawa_c:ArakawaC.check_dataset',
    'emsarray.conventions.ugrid:UGrid.check_dataset',
    'emsarray.conventions.ugrid:Mesh2DTopology.mesh_variable',
]

ALPHABET = 'abcCxy'

META = {
    'rule': ('(a) one generated dataset per case (five conventions in rotation, geometry and dressing from the case rng) plus '
             'every applicable single-feature near-miss (identifying attribute removed/changed, coordinate variable dropped or '
             'renamed, dimension renamed, ems_version / Conventions / cf_role / topology_dimension removed or altered); each is '
             'detected 3x, on a variable-order shuffled copy, through get_dataset_convention and through .ems, and the '
             'unedited dataset again in fresh interpreters with PYTHONHASHSEED 0, 1, 4242, random; distinct = (convention, '
             'near-miss label, encoding, outcome).  (b) 1..3 dummy conventions x chosen specificities x ALL registration '
             'orders on marker datasets; distinct = (convention, specificities, order).  (c) EXHAUSTIVE: every legal op '
             'sequence of length <= 5 (quick) / <= 7 (thorough) over the alphabet a=A.ems b=construct+bind on A c=B=A.copy() '
             'C=B=A.copy(deep=True) x=B.ems y=construct+bind on B (x, y legal only once B exists), each sequence run on a '
             'fresh dataset of EACH of the five conventions, followed by a probe access of every handle; plus random '
             'sequences up to length 20 over a larger alphabet (swap handles, copy.copy/deepcopy, get_dataset_convention, '
             'construct without bind, bind a trivial subclass); distinct = op string'),
    'min': {'evaluations': 5000, 'distinct': 300,
            'classes': {'detect:cf1d': 3, 'detect:cf2d': 3, 'detect:shoc_simple': 3, 'detect:shoc_standard': 3, 'detect:ugrid': 3,
                        'near-miss:total': 100, 'near-miss:nothing-matches': 10, 'near-miss:falls-back-to-generic': 20,
                        'near-miss:still-specific': 10, 'shuffled-copy': 100, 'detection-after-explicit-construction': 40,
                        'explicit-construction:shoc_standard': 3,
                        'fresh:0': 20, 'fresh:1': 20, 'fresh:4242': 20, 'fresh:random': 20,
                        'reg:orders': 50, 'reg:tie-manual-vs-builtin': 5, 'reg:tie-manual-vs-manual': 5,
                        'reg:builtin-higher': 3, 'reg:manual-higher': 5,
                        'hist:exhaustive-sequences': 1000, 'hist:random-sequences': 20,
                        'hist:second-bind-refused': 500, 'hist:copy-starts-unbound': 500, 'hist:access-returns-bound': 500}},
    'must_reach': ['emsarray.conventions._registry:ConventionRegistry.match_conventions',
                   'emsarray.conventions._registry:ConventionRegistry.guess_convention',
                   'emsarray.conventions._registry:ConventionRegistry.add_convention',
                   'emsarray.accessors:ems_accessor',
                   'emsarray.conventions._base:Convention.bind',
                   'emsarray.conventions.grid:CFGrid1D.check_dataset',
                   'emsarray.conventions.grid:CFGrid2D.check_dataset',
                   'emsarray.conventions.shoc:ShocSimple.check_dataset',
                   'emsarray.conventions.arakawa_c:ArakawaC.check_dataset',
                   'emsarray.conventions.ugrid:UGrid.check_dataset'],
    'assumptions': ['xarray container semantics: Dataset.copy() returns a new Dataset object; accessor objects are cached per object',
                    'id() of objects that are kept alive for the whole history is unique',
                    'a tie between two BUILT-IN conventions is not ordered by the statement: only consistency is asserted',
                    'datasets whose latitude/longitude candidates have mixed dimensionality are outside the documented rule (not generated)',
                    'fresh interpreters import the same emsarray source (checked: emsarray.__file__ compared)'],
    'exhaustive': True,
}

MARKER = 'vmon_marker'
SAMPLED = set()     # one evidence sample per part and shard
AMBIGUOUS = '<ambiguous>'
LOW, HIGH = 10, 30

CF_LAT_UNITS = {'degrees_north', 'degree_north', 'degree_N', 'degrees_N', 'degreeN', 'degreesN'}
CF_LON_UNITS = {'degrees_east', 'degree_east', 'degree_E', 'degrees_E', 'degreeE', 'degreesE'}
SHOC_NAMES = ['y_centre', 'x_centre', 'y_left', 'x_left', 'y_back', 'x_back', 'y_grid', 'x_grid']


# ---------------------------------------------------------------------------------------------------------------------
# the documented rule, restated (reads xarray containers only)
# ---------------------------------------------------------------------------------------------------------------------

def _is_lat(var):
    return var.attrs.get('units') in CF_LAT_UNITS or var.attrs.get('standard_name') == 'latitude' or var.attrs.get('axis') == 'Y'


def _is_lon(var):
    return var.attrs.get('units') in CF_LON_UNITS or var.attrs.get('standard_name') == 'longitude' or var.attrs.get('axis') == 'X'


def rule(ds):
    """-> (matches {class name: specificity}, winner class name | None | AMBIGUOUS)."""
    matches = {}
    ambiguous = False
    lat = {len(v.dims) for v in ds.variables.values() if _is_lat(v)}
    lon = {len(v.dims) for v in ds.variables.values() if _is_lon(v)}
    if lat and lon:
        if len(lat) == 1 and len(lon) == 1:
            if lat == {1} and lon == {1}:
                matches['CFGrid1D'] = LOW
            elif lat == {2} and lon == {2}:
                matches['CFGrid2D'] = LOW
        else:
            ambiguous = True        # which candidate is "the" latitude is not documented
    if all(name in ds.variables for name in SHOC_NAMES):
        matches['ShocStandard'] = HIGH
    if 'ems_version' in ds.attrs and {'j', 'i'} <= set(ds.dims):
        matches['ShocSimple'] = HIGH
    if 'UGRID' in str(ds.attrs.get('Conventions', '')):
        meshes = [v for v in ds.data_vars.values() if v.attrs.get('cf_role') == 'mesh_topology']
        two = [v.attrs.get('topology_dimension') == 2 for v in meshes]
        if meshes and all(two):
            matches['UGrid'] = HIGH
        elif meshes and any(two):
            ambiguous = True
    if ambiguous:
        return matches, AMBIGUOUS
    if not matches:
        return matches, None
    top = max(matches.values())
    winners = [k for k, v in matches.items() if v == top]
    return matches, winners[0] if len(winners) == 1 else AMBIGUOUS


# ---------------------------------------------------------------------------------------------------------------------
# dataset editing helpers (never touch the input dataset)
# ---------------------------------------------------------------------------------------------------------------------

def edit_var_attrs(ds, name, fn):
    new = ds.copy()
    var = new.variables[name]
    attrs = dict(var.attrs)
    fn(attrs)
    var.attrs = attrs
    return new


def edit_global(ds, fn):
    new = ds.copy()
    attrs = dict(ds.attrs)
    fn(attrs)
    new.attrs = attrs
    return new


def shuffled(ds, rng):
    """The same dataset with its variables inserted in a random order (coordinates stay coordinates)."""
    names = list(ds.variables)
    names = [names[i] for i in rng.permutation(len(names))]
    out = xarray.Dataset(attrs=dict(ds.attrs))
    for n in names:
        var = ds.variables[n]
        if n in ds.coords:
            out = out.assign_coords({n: var})
        else:
            out = out.assign({n: var})
    same = (set(out.variables) == set(ds.variables) and set(out.coords) == set(ds.coords) and dict(out.attrs) == dict(ds.attrs)
            and dict(out.sizes) == dict(ds.sizes) and all(out.variables[n].identical(ds.variables[n]) for n in ds.variables))
    if not same:
        raise AssertionError('harness: shuffled copy is not identical to the original')
    return out, names


def _drop_markers(attrs):
    for k in ('units', 'standard_name', 'axis'):
        attrs.pop(k, None)


def near_misses(model, ds, rng, thorough):
    """Yield (label, dataset) - each one single-feature edit of a generated dataset."""
    conv = model.convention
    e = model.encoding
    if conv in ('cf1d', 'cf2d', 'shoc_simple'):
        lat, lon = e['lat_name'], e['lon_name']
        yield 'lat-markers-removed', edit_var_attrs(ds, lat, _drop_markers)
        yield 'lon-markers-removed', edit_var_attrs(ds, lon, _drop_markers)
        yield 'lat-units-not-cf', edit_var_attrs(ds, lat, lambda a: (_drop_markers(a), a.update(units='metres')))
        yield 'lon-dropped', ds.drop_vars(lon)
        yield 'lat-renamed', ds.rename_vars({lat: lat + '_renamed'})
        yield 'ems_version-toggled', edit_global(ds, (lambda a: a.pop('ems_version')) if conv == 'shoc_simple'
                                                 else (lambda a: a.update(ems_version='v9.9')))
        yield 'Conventions-says-UGRID', edit_global(ds, lambda a: a.update(Conventions='CF-1.8, UGRID-1.0'))
    if conv == 'cf2d':
        yield 'dims-renamed-j-i', ds.rename_dims({e['ydim']: 'j', e['xdim']: 'i'})
        yield 'made-shoc-simple', edit_global(ds.rename_dims({e['ydim']: 'j', e['xdim']: 'i'}), lambda a: a.update(ems_version='v1'))
    if conv == 'shoc_simple':
        yield 'dim-j-renamed', ds.rename_dims({'j': 'jj'})
        yield 'dim-i-renamed', ds.rename_dims({'i': 'ii'})
        yield 'lat-standard_name-removed', edit_var_attrs(ds, e['lat_name'], lambda a: a.pop('standard_name'))
    if conv == 'shoc_standard':
        names = SHOC_NAMES if thorough else [SHOC_NAMES[i] for i in rng.permutation(8)[:3]]
        for n in names:
            yield 'coord-dropped', ds.drop_vars(n)
        for n in names[:2]:
            yield 'coord-renamed', ds.rename_vars({n: n + '_'})
        yield 'ems_version-added', edit_global(ds, lambda a: a.update(ems_version='v1'))
        yield 'tie-with-shoc-simple', edit_global(ds.rename_dims({'j_centre': 'j', 'i_centre': 'i'}), lambda a: a.update(ems_version='v1'))
        yield 'Conventions-says-UGRID', edit_global(ds, lambda a: a.update(Conventions='UGRID-1.0'))
    if conv == 'ugrid':
        yield 'Conventions-removed', edit_global(ds, lambda a: a.pop('Conventions'))
        yield 'Conventions-CF-only', edit_global(ds, lambda a: a.update(Conventions='CF-1.8'))
        yield 'Conventions-compound', edit_global(ds, lambda a: a.update(Conventions=pick(rng, ['CF-1.6, UGRID-1.0', 'UGRID-1.0 CF-1.6', 'CF-1.6/UGRID-0.9', 'UGRID'])))
        # a Conventions attribute that is a list / array of strings (a netCDF string array attribute is read back like that)
        yield 'Conventions-as-string-list', edit_global(ds, lambda a: a.update(Conventions=pick(rng, [
            ['CF-1.6', 'UGRID-1.0'], numpy.array(['CF-1.6', 'UGRID-1.0']), ('UGRID-1.0',), ['CF-1.8', 'UGRID-1.0', 'Deltares-0.10']])))
        yield 'cf_role-removed', edit_var_attrs(ds, 'Mesh2', lambda a: a.pop('cf_role'))
        yield 'cf_role-changed', edit_var_attrs(ds, 'Mesh2', lambda a: a.update(cf_role=pick(rng, ['mesh_topology_', 'mesh', 'face_node_connectivity'])))
        yield 'topology_dimension-removed', edit_var_attrs(ds, 'Mesh2', lambda a: a.pop('topology_dimension'))
        yield 'topology_dimension-not-2', edit_var_attrs(ds, 'Mesh2', lambda a: a.update(topology_dimension=pick(rng, [1, 3, numpy.int32(1), numpy.int64(3), 0])))
        yield 'topology_dimension-other-int-type', edit_var_attrs(ds, 'Mesh2', lambda a: a.update(topology_dimension=pick(rng, [2, numpy.int64(2), numpy.int16(2)])))
        yield 'mesh-variable-dropped', ds.drop_vars('Mesh2')
        yield 'ems_version-added', edit_global(ds, lambda a: a.update(ems_version='v1'))


def klass_named(name):
    import emsarray.conventions as C
    return None if name is None else getattr(C, name)


# ---------------------------------------------------------------------------------------------------------------------
# (a) detection
# ---------------------------------------------------------------------------------------------------------------------

def observe_detection(obs, ds, rng, label, spec, want=None):
    """Detect `ds` in every way; compare with rule(ds) (or `want`) and with itself. Returns the class name emsarray chose."""
    from emsarray.conventions import get_dataset_convention
    matches, winner = rule(ds)
    if want is not None and winner != want:
        raise AssertionError('harness: rule() says %r for a generated %s dataset' % (winner, want))
    answers = []
    for rep in range(3):
        got = obs.call('get_dataset_convention', get_dataset_convention, ds)
        if isinstance(got, Failed):
            return None
        answers.append(got)
    obs.expect(all(a is answers[0] for a in answers), 'repeated detection gives the same class',
               lambda: {'label': label, 'answers': [getattr(a, '__name__', None) for a in answers]}, mech='detection-not-repeatable')
    got = answers[0]
    got_name = None if got is None else got.__name__
    mixed, order = shuffled(ds, rng)
    obs.cls('shuffled-copy')
    again = obs.call('get_dataset_convention(shuffled)', get_dataset_convention, mixed)
    if not isinstance(again, Failed):
        obs.expect(again is got, 'detection does not depend on variable insertion order',
                   lambda: {'label': label, 'original': got_name, 'shuffled': getattr(again, '__name__', None), 'order': order},
                   mech='detection-depends-on-order')
    if winner == AMBIGUOUS:
        obs.cls('ambiguous-not-asserted')
    else:
        obs.expect(got is klass_named(winner), 'detected convention is the most specific match of the documented rule',
                   lambda: {'label': label, 'got': got_name, 'want': winner, 'rule matches': matches}, mech='detection-rule')
    # the accessor: same class, or refusal when nothing matches
    for target, tag in ((ds.copy(), 'copy'), (mixed, 'shuffled')):
        if got is None:
            exc = obs.raises('dataset.ems on a dataset nothing matches', lambda t=target: t.ems, exc_types=(RuntimeError,),
                             mech='unmatched-dataset-not-refused')
            if exc is not None:
                obs.cls('unmatched-refused')
        else:
            with quiet_warnings():
                conv = obs.call('dataset.ems', lambda t=target: t.ems)
            if isinstance(conv, Failed):
                continue
            obs.expect(type(conv) is got and conv.dataset is target, 'dataset.ems is an instance of the detected class, for this dataset',
                       lambda: {'label': label, 'tag': tag, 'type': type(conv).__name__, 'detected': got_name}, mech='accessor-class')
    obs.sig('detect', spec.get('convention'), label, got_name, repr(sorted(spec.get('encoding', {}).items()))[:200])
    return got_name


def detection_case(obs, rng, ctx, spec, pending):
    conv = spec['convention']
    model = fresh.build_model(ctx.seed, 'C11', spec['case'], conv)
    ds = model.encode()
    if rng.random() < 0.3:
        # a dataset opened from a file: every near-miss derived from it below still names the same file in
        # encoding['source'] (copy / drop_vars keep it) - detection must depend on the content, not on where it came from
        import os
        import tempfile
        import xarray
        fd, path = tempfile.mkstemp(suffix='.nc', dir=ctx.workdir)
        os.close(fd)
        ds.to_netcdf(path)
        ds = xarray.open_dataset(path)
        ds.load()
        obs.cls('detect:opened-from-file')
        spec['source'] = 'file'
    reference = ds.copy(deep=True)
    spec['encoding'] = {k: v for k, v in model.encoding.items() if k in ('coord_style', 'ident', 'bounds', 'lat_name', 'ydim', 'supplied')}
    obs.cls('detect:' + conv)
    name = observe_detection(obs, ds, rng, 'generated', spec, want=model.expected_class)
    obs.expect(name == model.expected_class, 'generated dataset is handled by its own convention',
               lambda: {'got': name, 'want': model.expected_class}, mech='detection-rule')
    pending.append((dict(spec), name))
    if rng.random() < 0.5:
        # the accessor has been used on the ORIGINAL before anything is derived from it: what it remembers (on the dataset
        # object, in its encoding, anywhere) must not travel to datasets derived from it whose content differs
        with quiet_warnings():
            bound = obs.call('dataset.ems (original, before deriving near-misses)', lambda: ds.ems)
        if not isinstance(bound, Failed):
            obs.cls('detect:accessor-used-before-deriving')
    revisit = []
    for label, edited in near_misses(model, ds, rng, ctx.thorough):
        if not ds.identical(reference):
            raise AssertionError('harness: near-miss edit %r modified the original dataset' % label)
        matches, winner = rule(edited)
        got = observe_detection(obs, edited, rng, label, spec)
        if winner != model.expected_class and len(revisit) < 2:
            revisit.append((label, edited))
        obs.cls('near-miss:total')
        obs.cls('near-miss:' + label)
        if winner is None:
            obs.cls('near-miss:nothing-matches')
        elif winner == AMBIGUOUS:
            pass
        elif winner in ('CFGrid1D', 'CFGrid2D') and model.expected_class != winner:
            obs.cls('near-miss:falls-back-to-generic')
        elif winner == model.expected_class:
            obs.cls('near-miss:still-specific')
        if 'a' not in SAMPLED and winner != model.expected_class and winner != AMBIGUOUS and conv in ('ugrid', 'shoc_simple'):
            SAMPLED.add('a')
            obs.sample({'part': 'a', 'convention': conv, 'near-miss': label, 'rule matches': matches, 'rule winner': winner,
                        'get_dataset_convention': got})
    if rng.random() < 0.5:
        explicit_construction_step(obs, rng, spec, model, ds, revisit)


def explicit_construction_step(obs, rng, spec, model, ds, revisit):
    """Handling ONE dataset by hand - constructing a convention for it with explicit options, as the documentation
    suggests for files nothing recognises - must not change what detection says about any other dataset afterwards."""
    from emsarray.conventions import arakawa_c, grid
    from ..model.grids import SHOC_COORDS
    conv = spec['convention']
    made = None
    if conv == 'shoc_standard':
        new_names = {kind: ('lat_%s_%d' % (kind, spec['case'] % 7), 'lon_%s_%d' % (kind, spec['case'] % 7)) for kind in SHOC_COORDS}
        renames = {}
        for kind, (y, x) in SHOC_COORDS.items():
            renames[y], renames[x] = new_names[kind]
        renamed = ds.rename(renames)
        observe_detection(obs, renamed.copy(), rng, 'arakawa-coordinates-renamed', spec)
        revisit = list(revisit) + [('arakawa-coordinates-renamed', renamed.copy())]
        # the generic class, or the SHOC class with its hard-coded names overridden for this one dataset
        klass = arakawa_c.ArakawaC if rng.random() < 0.5 else klass_named('ShocStandard')
        with quiet_warnings():
            made = obs.call('%s(dataset, coordinate_names=)' % klass.__name__, klass, renamed, coordinate_names=new_names)
        if not isinstance(made, Failed):
            size = obs.call('grid_size of the explicitly constructed convention', lambda: dict(made.grid_size))
            if not isinstance(size, Failed):
                obs.expect(size.get(model.kind_token('face')) == model.kinds['face'].size, 'explicitly constructed ArakawaC describes the dataset',
                           lambda: {'got': size}, mech='explicit-construction')
            if rng.random() < 0.5:
                obs.call('bind the explicitly constructed convention', made.bind)
    elif conv in ('cf1d', 'cf2d', 'shoc_simple'):
        klass = {'cf1d': grid.CFGrid1D, 'cf2d': grid.CFGrid2D, 'shoc_simple': klass_named('ShocSimple')}[conv]
        e = model.encoding
        with quiet_warnings():
            made = obs.call('%s(dataset, latitude=, longitude=)' % klass.__name__, klass, ds.copy(),
                            latitude=e['lat_name'], longitude=e['lon_name'])
        if not isinstance(made, Failed):
            obs.call('grid_size of the explicitly constructed convention', lambda: dict(made.grid_size))
    else:
        with quiet_warnings():
            made = obs.call('UGrid(dataset)', klass_named('UGrid'), ds.copy())
        if not isinstance(made, Failed):
            obs.call('grid_size of the explicitly constructed convention', lambda: dict(made.grid_size))
    if made is None or isinstance(made, Failed):
        return
    obs.cls('explicit-construction:' + conv)
    for label, other in [('generated', ds.copy())] + list(revisit):
        observe_detection(obs, other, rng, label + ' (after an explicit construction)', spec)
        obs.cls('detection-after-explicit-construction')


def synthetic_unmatched(obs, rng, spec):
    """Datasets nothing matches, written by hand."""
    n = int(rng.integers(2, 6))
    candidates = [
        ('empty', xarray.Dataset()),
        ('data-only', xarray.Dataset({'t': (('a', 'b'), numpy.zeros((n, 2)))})),
        ('lat-without-lon', xarray.Dataset({'t': (('lat',), numpy.zeros(n))}, coords={'lat': ('lat', numpy.arange(n) * 1.0, {'units': 'degrees_north'})})),
        ('names-only', xarray.Dataset(coords={'lat': ('lat', numpy.arange(n) * 1.0), 'lon': ('lon', numpy.arange(3) * 1.0)})),
        ('3d-coordinates', xarray.Dataset(coords={'lat': (('a', 'b', 'c'), numpy.zeros((2, 2, 2)), {'units': 'degrees_north'}),
                                                  'lon': (('a', 'b', 'c'), numpy.zeros((2, 2, 2)), {'units': 'degrees_east'})})),
        ('lat-1d-lon-2d', xarray.Dataset(coords={'lat': (('a',), numpy.zeros(2), {'units': 'degrees_north'}),
                                                 'lon': (('a', 'b'), numpy.zeros((2, 2)), {'units': 'degrees_east'})})),
        ('ems_version-only', xarray.Dataset({'t': (('j', 'k'), numpy.zeros((2, 2)))}, attrs={'ems_version': 'v1'})),
        ('seven-shoc-names', xarray.Dataset({name: (('a', 'b'), numpy.zeros((2, 2))) for name in SHOC_NAMES[:7]})),
        ('ugrid-marker-only', xarray.Dataset({'t': (('a',), numpy.zeros(n))}, attrs={'Conventions': 'UGRID-1.0'})),
    ]
    for label, ds in candidates:
        matches, winner = rule(ds)
        if winner is not None:
            raise AssertionError('harness: synthetic dataset %s matches %r by the rule' % (label, winner))
        observe_detection(obs, ds, rng, 'synthetic:' + label, spec)
        obs.cls('near-miss:nothing-matches')


def compare_fresh(obs, ctx, pending):
    """The same specs regenerated in fresh interpreters under four hash seeds."""
    import emsarray
    if not pending:
        return
    request = {'seed': ctx.seed, 'prop': 'C11', 'want': ['detect'],
               'specs': [{'id': i, 'case': s['case'], 'convention': s['convention']} for i, (s, _) in enumerate(pending)]}
    for hashseed in fresh.HASHSEEDS:
        response, error = fresh.run_fresh(request, hashseed)
        if error:
            obs.inconclusive.append(error)
            continue
        if response.get('emsarray_file') != emsarray.__file__:
            obs.inconclusive.append('fresh interpreter imported %s, the monitor %s' % (response.get('emsarray_file'), emsarray.__file__))
            continue
        for i, (spec, here) in enumerate(pending):
            spec = dict(spec, hashseed=hashseed)
            ctx.run_case(spec, _compare_one_fresh, obs, response['results'].get(str(i), {}), here, hashseed)


def _compare_one_fresh(obs, res, here, hashseed):
    obs.evaluation()
    if 'error' in res:
        obs.fail('fresh interpreter: unexpected exception: ' + res['error'], {'hashseed': hashseed})
        return
    obs.cls('fresh:' + hashseed)
    obs.expect(res.get('detect') == here and res.get('ems') == here,
               'a fresh interpreter with another hash seed detects the same convention',
               lambda: {'hashseed': hashseed, 'here': here, 'there': res}, mech='detection-depends-on-process')


# ---------------------------------------------------------------------------------------------------------------------
# (b) registration
# ---------------------------------------------------------------------------------------------------------------------

@contextlib.contextmanager
def registry_sandbox():
    """Save the registry state (manual list + cached merged list), restore it afterwards whatever happened."""
    from emsarray.conventions import _registry
    reg = _registry.registry
    saved = list(reg.registered_conventions)
    try:
        yield reg
    finally:
        reg.registered_conventions = saved
        reg.__dict__.pop('conventions', None)


def _stub(self, *args, **kwargs):
    raise NotImplementedError('vmon dummy convention')


def make_dummy(name, specificity, token):
    from emsarray.conventions import Convention

    def check_dataset(cls, dataset):
        return specificity if dataset.attrs.get(MARKER) == token else None
    ns = {'__module__': __name__, '__qualname__': name}
    for method in Convention.__abstractmethods__:
        ns[method] = _stub
    ns['check_dataset'] = classmethod(check_dataset)
    ns['vmon_specificity'] = specificity
    return type(name, (Convention,), ns)


def expected_winner(builtin, builtin_spec, dummies_in_order):
    """highest specificity; ties -> manually registered before built-in, earlier registration first."""
    ranked = [(d.vmon_specificity, 0, pos, d) for pos, d in enumerate(dummies_in_order)]
    if builtin is not None:
        ranked.append((builtin_spec, 1, 0, builtin))
    top = max(r[0] for r in ranked)
    best = sorted((r for r in ranked if r[0] == top), key=lambda r: (r[1], r[2]))
    return best[0][3]


def registration_case(obs, rng, ctx, spec):
    from emsarray.conventions import Specificity, get_dataset_convention, register_convention
    conv = spec['convention']
    if conv == 'none':
        ds = xarray.Dataset({'t': (('a',), numpy.zeros(3))})
        builtin_name, builtin_spec = None, None
    else:
        model = fresh.build_model(ctx.seed, 'C11', spec['case'], conv, stream='reg')
        ds = model.encode()
        matches, builtin_name = rule(ds)
        if builtin_name != model.expected_class:
            raise AssertionError('harness: rule() disagrees with the model')
        builtin_spec = matches[builtin_name]
    builtin = klass_named(builtin_name)
    token = 'tok%d' % int(rng.integers(1000))
    marked = edit_global(ds, lambda a: a.update({MARKER: token}))
    other = edit_global(ds, lambda a: a.update({MARKER: token + 'x'}))
    n = int(rng.integers(1, 4))
    base = builtin_spec if builtin_spec is not None else 20
    pool = [base, base, base + 5, base - 5, 10, 20, 30, 31, 50, 1]
    specs = [int(pick(rng, pool)) for _ in range(n)]
    if n >= 2 and chance(rng, 0.5):
        specs[1] = specs[0]                 # tie between two manual registrations
    use_enum = chance(rng, 0.3)
    spec['specificities'] = specs
    with registry_sandbox():
        before = obs.call('get_dataset_convention', get_dataset_convention, marked)     # fills the registry's cached list
    obs.expect(before is builtin, 'a marker attribute alone changes nothing', lambda: {'got': getattr(before, '__name__', None), 'want': builtin_name})
    for order in itertools.permutations(range(n)):
        dummies = [make_dummy('Dummy%d' % k, Specificity(specs[k]) if use_enum and specs[k] in (10, 20, 30) else specs[k], token)
                   for k in range(n)]
        in_order = [dummies[k] for k in order]
        want = expected_winner(builtin, builtin_spec, in_order)
        with registry_sandbox():
            get_dataset_convention(marked)
            for d in in_order:
                r = obs.call('register_convention', register_convention, d)
                obs.expect(r is d, 'register_convention returns the class (decorator use)')
            obs.cls('reg:orders')
            got = obs.call('get_dataset_convention', get_dataset_convention, marked)
            if isinstance(got, Failed):
                continue
            top = max([d.vmon_specificity for d in dummies] + ([builtin_spec] if builtin is not None else []))
            tops = [d for d in in_order if d.vmon_specificity == top]
            if builtin is not None and builtin_spec == top and tops:
                obs.cls('reg:tie-manual-vs-builtin')
                kind = 'tie-manual-vs-builtin'
            elif len(tops) > 1:
                obs.cls('reg:tie-manual-vs-manual')
                kind = 'tie-manual-vs-manual'
            elif tops:
                obs.cls('reg:manual-higher')
                kind = 'manual-higher'
            else:
                obs.cls('reg:builtin-higher')
                kind = 'builtin-higher'
            detail = lambda: {'builtin': [builtin_name, builtin_spec],      # noqa: E731
                              'registered (in order)': [[d.__name__, int(d.vmon_specificity)] for d in in_order],
                              'got': getattr(got, '__name__', None), 'want': want.__name__}
            obs.expect(got is want, 'highest specificity wins; ties: manually registered first, earlier registration first',
                       detail, mech='registration-' + kind)
            target = marked.copy()
            with quiet_warnings():
                bound = obs.call('dataset.ems', lambda: target.ems)
            if not isinstance(bound, Failed):
                obs.expect(type(bound) is want and bound.dataset is target, 'dataset.ems uses the registered winner', detail,
                           mech='registration-' + kind)
            # a dataset the dummies do not match is unaffected
            plain = obs.call('get_dataset_convention', get_dataset_convention, other)
            obs.expect(plain is builtin, 'registered conventions that do not match change nothing',
                       lambda: {'got': getattr(plain, '__name__', None), 'want': builtin_name}, mech='registration-leak')
            # ... and detecting that other dataset in between must not change who wins here (the rule is a function of the
            # dataset's content and of the registrations, not of what was detected before)
            again = obs.call('get_dataset_convention (again, after another dataset was detected)', get_dataset_convention, marked)
            if not isinstance(again, Failed):
                obs.expect(again is want, 'the winner does not depend on which datasets were detected before',
                           lambda: dict(detail(), again=getattr(again, '__name__', None)), mech='detection-depends-on-history')
            obs.sig('reg', conv, tuple(specs), order)
            if 'b' not in SAMPLED and kind.startswith('tie') and n >= 2:
                SAMPLED.add('b')
                obs.sample({'part': 'b', 'convention': conv, **detail(), 'kind': kind})
        after = obs.call('get_dataset_convention', get_dataset_convention, marked)
        if after is not before:
            raise AssertionError('harness: registry state was not restored (%r)' % after)


def builtin_tie_case(obs, rng, ctx, spec):
    """A dataset that matches ShocSimple and ShocStandard equally: the statement does not order them, but registering
    either one manually must make it win the tie."""
    from emsarray.conventions import ShocSimple, ShocStandard, get_dataset_convention, register_convention
    model = fresh.build_model(ctx.seed, 'C11', spec['case'], 'shoc_standard', stream='reg')
    ds = model.encode().rename_dims({'j_centre': 'j', 'i_centre': 'i'})
    ds.attrs['ems_version'] = 'v1'
    matches, winner = rule(ds)
    if winner != AMBIGUOUS or matches.get('ShocSimple') != matches.get('ShocStandard'):
        raise AssertionError('harness: expected a tie')
    unregistered = obs.call('get_dataset_convention', get_dataset_convention, ds)
    obs.expect(unregistered in (ShocSimple, ShocStandard), 'one of the tied conventions is chosen')
    obs.cls('builtin-tie-order-not-asserted')
    for manual in (ShocSimple, ShocStandard):
        with registry_sandbox():
            obs.call('register_convention', register_convention, manual)
            got = obs.call('get_dataset_convention', get_dataset_convention, ds)
            obs.cls('reg:tie-manual-vs-builtin')
            obs.cls('reg:orders')
            obs.expect(got is manual, 'a manually registered convention wins a tie against a built-in one',
                       lambda: {'registered': manual.__name__, 'got': getattr(got, '__name__', None)}, mech='registration-tie-manual-vs-builtin')
            obs.sig('reg-builtin', manual.__name__, spec['case'])
    again = obs.call('get_dataset_convention', get_dataset_convention, ds)
    obs.expect(again is unregistered, 'detection is the same after the registry is restored')


# ---------------------------------------------------------------------------------------------------------------------
# (c) binding histories
# ---------------------------------------------------------------------------------------------------------------------

def legal_sequences(max_len):
    """Every op string of length 1..max_len over ALPHABET in which B is only used after it was created."""
    out = []
    for length in range(1, max_len + 1):
        for seq in itertools.product(ALPHABET, repeat=length):
            has_b = False
            ok = True
            for op in seq:
                if op in 'cC':
                    has_b = True
                elif op in 'xy' and not has_b:
                    ok = False
                    break
            if ok:
                out.append(''.join(seq))
    return out


class Subclasses:
    """Trivial subclasses of the built-in conventions (for manual binding of 'another' class)."""
    cache = {}

    @classmethod
    def of(cls, klass):
        if klass not in cls.cache:
            cls.cache[klass] = type('Sub' + klass.__name__, (klass,), {'__module__': __name__})
        return cls.cache[klass]


def run_history(ops, base, klass):
    """Execute `ops` against fresh handles; return the recorded history (no judgement here).
    Records: (op, handle, outcome, id, type name, dataset-is-handle)."""
    import copy as _copy
    from emsarray.conventions import get_dataset_convention
    handles = {'A': base.copy(), 'B': None}
    keep = []          # every convention object stays alive: ids are unique within one history
    history = []

    def access(h):
        try:
            conv = handles[h].ems
        except Exception as exc:  # noqa: BLE001
            history.append(('access', h, 'raised', None, type(exc).__name__, None))
            return
        keep.append(conv)
        history.append(('access', h, 'returned', id(conv), type(conv).__name__, conv.dataset is handles[h]))

    def bind(h, k, do_bind=True):
        try:
            conv = k(handles[h])
        except Exception as exc:  # noqa: BLE001
            history.append(('construct', h, 'raised', None, type(exc).__name__, None))
            return
        keep.append(conv)
        if not do_bind:
            history.append(('construct', h, 'returned', id(conv), type(conv).__name__, conv.dataset is handles[h]))
            return
        try:
            conv.bind()
        except Exception as exc:  # noqa: BLE001
            history.append(('bind', h, 'raised', id(conv), type(exc).__name__, None))
            return
        history.append(('bind', h, 'returned', id(conv), type(conv).__name__, conv.dataset is handles[h]))

    for op in ops:
        if op == 'a':
            access('A')
        elif op == 'x':
            access('B')
        elif op == 'b':
            bind('A', klass)
        elif op == 'y':
            bind('B', klass)
        elif op == 'B':
            bind('A', Subclasses.of(klass))
        elif op == 'Y':
            bind('B', Subclasses.of(klass))
        elif op == 'n':
            bind('A', klass, do_bind=False)
        elif op in 'rR':
            # bind() once more on the very convention object that is attached to the dataset: a second attachment all the same
            h = 'A' if op == 'r' else 'B'
            if handles[h] is None:
                continue
            try:
                conv = handles[h].ems
            except Exception as exc:  # noqa: BLE001
                history.append(('access', h, 'raised', None, type(exc).__name__, None))
                continue
            keep.append(conv)
            history.append(('access', h, 'returned', id(conv), type(conv).__name__, conv.dataset is handles[h]))
            try:
                conv.bind()
            except Exception as exc:  # noqa: BLE001
                history.append(('bind', h, 'raised', id(conv), type(exc).__name__, None))
                continue
            history.append(('bind', h, 'returned', id(conv), type(conv).__name__, conv.dataset is handles[h]))
        elif op in 'cCdD':
            src = handles['A']
            new = {'c': lambda: src.copy(), 'C': lambda: src.copy(deep=True),
                   'd': lambda: _copy.copy(src), 'D': lambda: _copy.deepcopy(src)}[op]()
            keep.append(handles['B'])
            handles['B'] = new
            history.append(('copy', 'B', 'returned', None, op, new is not src))
        elif op == 's':
            handles['A'], handles['B'] = handles['B'], handles['A']
            history.append(('swap', None, 'returned', None, None, None))
        elif op == 'g':
            try:
                got = get_dataset_convention(handles['A'])
                history.append(('detect', 'A', 'returned', None, getattr(got, '__name__', None), None))
            except Exception as exc:  # noqa: BLE001
                history.append(('detect', 'A', 'raised', None, type(exc).__name__, None))
    # probe: what does every existing handle answer now?
    for h in ('A', 'B'):
        if handles[h] is not None:
            access(h)
    return history


def check_history(obs, ops, history, expected_class, conv):
    """The sequential model: per dataset handle, the id of the bound convention or None."""
    bound = {'A': None, 'B': None}
    seen = set()
    ok = True

    def bad(what, k, rec):
        obs.fail(what, {'ops': ops, 'convention': conv, 'step': k, 'record': rec, 'history': history[:30], 'model bound': dict(bound)},
                 mech='binding-history')

    for k, rec in enumerate(history):
        kind, h, outcome, ident, tname, flag = rec
        obs.evaluation()
        if kind == 'swap':
            bound['A'], bound['B'] = bound['B'], bound['A']
        elif kind == 'copy':
            if not flag:
                bad('copy returned the same Dataset object', k, rec)
                ok = False
            bound['B'] = None
        elif kind == 'detect':
            if outcome != 'returned' or tname != expected_class:
                bad('get_dataset_convention changed its answer during a history', k, rec)
                ok = False
        elif kind == 'construct':
            if outcome != 'returned' or ident in seen or not flag:
                bad('constructing a convention failed or returned a known object', k, rec)
                ok = False
            seen.add(ident)
        elif kind == 'access':
            if outcome != 'returned':
                bad('dataset.ems raised %s' % tname, k, rec)
                ok = False
            elif bound[h] is None:
                if ident in seen or not flag or tname != expected_class:
                    bad('dataset.ems on an unbound dataset must autodetect and return a fresh convention of the detected class '
                        'for this dataset', k, rec)
                    ok = False
                else:
                    if any(r[0] == 'copy' for r in history[:k]) and h == 'B':
                        obs.cls('hist:copy-starts-unbound')
                bound[h] = ident
                seen.add(ident)
            else:
                if ident != bound[h]:
                    bad('dataset.ems must return the convention bound to this dataset (identity)', k, rec)
                    ok = False
                else:
                    obs.cls('hist:access-returns-bound')
        elif kind == 'bind':
            if ident is not None:
                fresh_id = ident not in seen
                seen.add(ident)
            if bound[h] is None:
                if outcome != 'returned' or not fresh_id or not flag:
                    bad('bind() on an unbound dataset must succeed', k, rec)
                    ok = False
                bound[h] = ident
            else:
                if outcome != 'raised' or tname != 'ValueError':
                    bad('bind() on an already bound dataset must raise ValueError', k, rec)
                    ok = False
                    if outcome == 'returned':
                        pass        # the model keeps the first binding: a later access shows whether it was replaced
                else:
                    obs.cls('hist:second-bind-refused')
                    obs.expected_errors['bind on a bound dataset'] += 1
        if ok:
            obs.ok()
    return ok


def history_case(obs, ops, bases, spec, only=None):
    for conv, (base, klass) in bases.items():
        if only is not None and conv != only:
            continue
        history = run_history(ops, base, klass)
        good = check_history(obs, ops, history, klass.__name__, conv)
        if good and 'c' not in SAMPLED and len(ops) >= 5 and sum(r[0] == 'bind' and r[2] == 'raised' for r in history) \
                and sum(r[0] == 'copy' for r in history) and ops[-1] in 'xy':
            SAMPLED.add('c')
            obs.sample({'part': 'c', 'ops': ops, 'convention': conv,
                        'legend': 'a=A.ems b=bind A c/C=B=A.copy(shallow/deep) x=B.ems y=bind B; last records are probes',
                        'history (op, handle, outcome, id, type, dataset is handle)': history})
    obs.sig('hist', ops)


def make_bases(seed, case, stream):
    """One never-bound dataset per convention, with its expected class object."""
    bases = {}
    for conv in CONVENTIONS:
        model = fresh.build_model(seed, 'C11', case, conv, stream=stream)
        ds = model.encode()
        name = rule(ds)[1]
        if name != model.expected_class:
            raise AssertionError('harness: rule() disagrees with the model')
        bases[conv] = (ds, klass_named(name))
    return bases


# ---------------------------------------------------------------------------------------------------------------------

def run(ctx):
    obs = ctx.obs
    obs.extra['meta'] = META

    # (a) detection
    pending = []
    for case, rng in ctx.cases(ctx.n(160, 6000), stream='detect'):
        conv = CONVENTIONS[case % len(CONVENTIONS)]
        spec = {'part': 'a', 'case': case, 'convention': conv}
        with quiet_warnings():
            ctx.run_case(spec, detection_case, obs, rng, ctx, spec, pending)
        if case % 40 == 7:
            spec2 = {'part': 'a-synthetic', 'case': case}
            ctx.run_case(spec2, synthetic_unmatched, obs, rng, spec2)
    compare_fresh(obs, ctx, pending)

    # (b) registration orders
    for case, rng in ctx.cases(ctx.n(96, 3000), stream='register'):
        conv = (CONVENTIONS + ['none'])[case % 6]
        spec = {'part': 'b', 'case': case, 'convention': conv}
        ctx.run_case(spec, registration_case, obs, rng, ctx, spec)
        if case % 12 == 5:
            spec2 = {'part': 'b-builtin-tie', 'case': case}
            ctx.run_case(spec2, builtin_tie_case, obs, rng, ctx, spec2)

    # (c) histories: complete enumeration, then random long ones
    max_len = ctx.n(5, 7)
    full_len = ctx.n(5, 6)      # up to this length every sequence runs on all five conventions, longer ones on one (rotating)
    sequences = legal_sequences(max_len)
    bases = make_bases(ctx.seed, 0, 'hist')
    done = 0
    for case, rng in ctx.cases(len(sequences), stream='hist'):
        ops = sequences[case]
        spec = {'part': 'c', 'case': case, 'ops': ops}
        only = None if len(ops) <= full_len else CONVENTIONS[case % len(CONVENTIONS)]
        ctx.run_case(spec, history_case, obs, ops, bases, spec, only=only)
        obs.cls('hist:exhaustive-sequences')
        done += 1
    if ctx.only_case is None:
        mine = len(range(ctx.shard, len(sequences), ctx.nshards))
        obs.extra['exhaustive_complete'] = 1 if done == mine and not obs.harness_errors else 0
        obs.extra['histories_enumerated'] = done
        if ctx.shard == 0:
            obs.extra['histories_in_space'] = len(sequences)
            obs.extra['history_max_length'] = max_len
    wide = 'abcCxyBYndDsgrR'
    for case, rng in ctx.cases(ctx.n(200, 12000), stream='hist-random'):
        length = int(rng.integers(6, 21))
        ops, has_b = [], False
        while len(ops) < length:
            op = wide[int(rng.integers(len(wide)))]
            if op in 'xyYsR' and not has_b:
                continue
            if op in 'cCdD':
                has_b = True
            ops.append(op)
        ops = ''.join(ops)
        spec = {'part': 'c-random', 'case': case, 'ops': ops}
        if case % 50 == 0:
            bases_r = make_bases(ctx.seed, case, 'hist-random')
        else:
            bases_r = bases
        ctx.run_case(spec, history_case, obs, ops, bases_r, spec)
        obs.cls('hist:random-sequences')
