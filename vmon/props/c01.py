"""C01 - native and linear indexes form a bijection on every grid kind."""
import numpy

from ..common import Failed, quiet_warnings
from ..model import CONVENTIONS, make_dressed

ANCHORS = [
    'emsarray.conventions._base:DimensionConvention.ravel_index',
    'emsarray.conventions._base:DimensionConvention.wind_index',
    'emsarray.conventions._base:DimensionConvention.grid_shape',
    'emsarray.conventions.grid:CFGrid.pack_index',
    'emsarray.conventions.grid:CFGrid.unpack_index',
    'emsarray.conventions.grid:CFGrid.grid_dimensions',
    'emsarray.conventions.arakawa_c:ArakawaC.pack_index',
    'emsarray.conventions.arakawa_c:ArakawaC.unpack_index',
    'emsarray.conventions.arakawa_c:ArakawaC.grid_dimensions',
    'emsarray.conventions.ugrid:UGrid.pack_index',
    'emsarray.conventions.ugrid:UGrid.unpack_index',
    'emsarray.conventions.ugrid:UGrid.grid_dimensions',
    'emsarray.conventions.ugrid:UGrid.grid_kinds',
]

META = {
    'rule': ('random abstract datasets of all five conventions (UGRID with/without edge dimension); for every grid '
             'kind EVERY linear index in [-3, size+3) plus far values is wound, every in-range native index ravelled, '
             'natives with one component at -1/size/size+1 ravelled; a case is distinct by (convention, kind, shape); '
             'non-trivial = grid with >= 2 cells'),
    'min': {'evaluations': 2000, 'distinct': 20,
            'classes': {'shape:1xN': 1, 'shape:Nx1': 1, 'shape:non-square': 5, 'ugrid:with-edge': 1, 'ugrid:no-edge': 1,
                        'out-of-range-rejected': 100}},
    'must_reach': ['emsarray.conventions._base:DimensionConvention.ravel_index',
                   'emsarray.conventions._base:DimensionConvention.wind_index'],
    'assumptions': ['numpy integer arithmetic', 'xarray Dataset.sizes'],
}

INT_TYPES = [int, numpy.int64, numpy.int32, numpy.intp]


def forced(case):
    """Shapes forced into the first cases of every run so that 1xN, Nx1 and non-square always occur."""
    table = [
        ('cf1d', dict(ny=1, nx=5, bounds='var')), ('cf1d', dict(ny=4, nx=1, bounds='var')), ('cf1d', dict(ny=2, nx=5)),
        ('cf2d', dict(nj=1, ni=4, bounds='var')), ('cf2d', dict(nj=5, ni=1, bounds='var')), ('cf2d', dict(nj=3, ni=5)),
        ('shoc_simple', dict(nj=1, ni=3, bounds='var')), ('shoc_simple', dict(nj=4, ni=2)),
        ('shoc_standard', dict(nj=1, ni=4)), ('shoc_standard', dict(nj=3, ni=1)), ('shoc_standard', dict(nj=2, ni=5)),
        ('ugrid', dict(declare_edge_dim=True)), ('ugrid', dict(declare_edge_dim=False, supplied=())),
        ('ugrid', dict(declare_edge_dim=False, supplied=('edge_node',))),
        ('ugrid', dict(declare_edge_dim=False, supplied=('face_face',))),
    ]
    return table[case] if case < len(table) else None


def run(ctx):
    obs = ctx.obs
    obs.extra['meta'] = META
    from ..model import set_declaration_order_varies
    set_declaration_order_varies(True)     # some datasets declare the x dimension before y
    from ..model.grids import set_wide_longitudes
    set_wide_longitudes(True)      # also datasets in the 0..360 convention / straddling 180 degrees
    total = ctx.n(1000, 80000)
    for case, rng in ctx.cases(total):
        f = forced(case)
        conv, kw = f if f else (CONVENTIONS[case % len(CONVENTIONS)], {})
        spec = {'case': case, 'convention': conv, 'kw': kw}
        ctx.run_case(spec, one_dataset, obs, rng, conv, kw, spec)


def one_dataset(obs, rng, conv, kw, spec):
    model = make_dressed(rng, conv, dress=dict(per_kind=(1, 1), nongrid=0, band=False), **kw)
    ds = model.encode()
    with quiet_warnings():
        ems = obs.call('dataset.ems', lambda: ds.ems)
    if isinstance(ems, Failed):
        return
    spec['model'] = model.describe()
    obs.expect_equal(type(ems).__name__, model.expected_class, 'convention class')
    kinds = obs.call('grid_kinds', lambda: set(ems.grid_kinds))
    if isinstance(kinds, Failed):
        return
    obs.expect_equal(sorted(str(getattr(k, 'value', k)) for k in kinds), sorted(model.kinds), 'grid_kinds')
    if conv == 'ugrid':
        obs.cls('ugrid:with-edge' if 'edge' in model.kinds else 'ugrid:no-edge')
    sizes = obs.call('grid_size', lambda: dict(ems.grid_size))
    if isinstance(sizes, Failed):
        return
    default = obs.call('default_grid_kind', lambda: ems.default_grid_kind)
    obs.expect(str(getattr(default, 'value', default)) == model.default_kind, 'default grid kind')
    if conv in ('cf1d', 'cf2d') and rng.random() < 0.5:
        # the documented explicit form: Convention(dataset, latitude=<name>, longitude=<name>) instead of autodetection
        e = model.encoding
        with quiet_warnings():
            explicit = obs.call('%s(dataset, latitude=, longitude=)' % type(ems).__name__,
                                lambda: type(ems)(ds, latitude=e['lat_name'], longitude=e['lon_name']))
        if not isinstance(explicit, Failed):
            obs.cls('explicit-coordinate-names')
            face = model.kinds['face']
            gs = obs.call('grid_size (explicit names)', lambda: dict(explicit.grid_size))
            if not isinstance(gs, Failed):
                obs.expect(gs.get(model.kind_token('face')) == face.size, 'grid_size with explicit coordinate names')
            for n in sorted({0, face.size - 1, int(rng.integers(face.size)), int(rng.integers(face.size))}):
                nat = obs.call('wind_index (explicit names)', explicit.wind_index, n)
                if not isinstance(nat, Failed):
                    obs.expect(_same_native(nat, model.native('face', n)), 'wind_index with explicit coordinate names is row-major over (y, x)',
                               lambda: {'n': n, 'got': repr(nat), 'want': model.native('face', n), 'shape': face.shape}, mech='explicit-names-differ')
                    back = obs.call('ravel_index (explicit names)', explicit.ravel_index, nat)
                    if not isinstance(back, Failed):
                        obs.expect(int(back) == n, 'ravel_index(wind_index(n)) == n with explicit coordinate names')
            r = obs.raises('wind_index(out of range, explicit names)', explicit.wind_index, face.size, mech='out-of-range-linear-accepted')
    shapes = obs.call('grid_shape', lambda: dict(ems.grid_shape))
    gdims = obs.call('grid_dimensions', lambda: dict(ems.grid_dimensions))
    for kname, kind in model.kinds.items():
        token = model.kind_token(kname)
        size = kind.size
        obs.expect(sizes.get(token) == size, 'grid_size == product of shape',
                   lambda: {'kind': kname, 'got': sizes.get(token), 'want': size})
        if not isinstance(shapes, Failed):
            obs.expect(tuple(shapes.get(token, ())) == tuple(kind.shape), 'grid_shape is the shape of the grid in the convention\'s dimension order',
                       lambda: {'kind': kname, 'got': shapes.get(token), 'want': kind.shape}, mech='grid-shape')
        if not isinstance(gdims, Failed):
            obs.expect(tuple(gdims.get(token, ())) == tuple(kind.dims), 'grid_dimensions are the dimensions of the grid in the convention\'s order',
                       lambda: {'kind': kname, 'got': gdims.get(token), 'want': kind.dims}, mech='grid-dimensions')
        # a variable on this grid is recognised as such, and the (deprecated) combined form reports the same size
        for vname, var in model.variables.items():
            if var.kind != kname:
                continue
            got_kind = obs.call('get_grid_kind', ems.get_grid_kind, ds[vname])
            if not isinstance(got_kind, Failed):
                obs.expect(got_kind == token, 'get_grid_kind(variable) is the grid the variable is defined on',
                           lambda: {'variable': vname, 'dims': ds[vname].dims, 'got': repr(got_kind), 'want': kname}, mech='grid-kind-of-variable')
            import warnings as _w
            with _w.catch_warnings():
                _w.simplefilter('ignore')
                both = obs.call('get_grid_kind_and_size (deprecated)', ems.get_grid_kind_and_size, ds[vname])
            if not isinstance(both, Failed):
                obs.cls('alias:get_grid_kind_and_size')
                obs.expect(tuple(both) == (token, size), 'get_grid_kind_and_size(variable) == (grid kind, grid size)',
                           lambda: {'variable': vname, 'got': repr(both), 'want': (kname, size)}, mech='alias-differs')
            break
        if len(kind.shape) == 2:
            a, b = kind.shape
            if a == 1 and b > 1:
                obs.cls('shape:1xN')
            elif b == 1 and a > 1:
                obs.cls('shape:Nx1')
            if a != b:
                obs.cls('shape:non-square')
        if size >= 2:
            obs.sig(conv, kname, kind.shape)
        if len(obs.samples) < 3 and kname == model.default_kind:
            obs.sample({'convention': conv, 'kind': kname, 'shape': kind.shape,
                        'wind_index(size-1)': repr(ems.wind_index(size - 1, grid_kind=token)),
                        'native(size-1) by model': model.native(kname, size - 1)})
        seen = set()
        itype = INT_TYPES[int(rng.integers(len(INT_TYPES)))]
        # every linear index in range
        for n in range(size):
            arg = itype(n)
            use_default = kname == model.default_kind and n % 2 == 0
            if use_default:
                native = obs.call('wind_index', ems.wind_index, arg)
            else:
                native = obs.call('wind_index', ems.wind_index, arg, grid_kind=token)
            if isinstance(native, Failed):
                continue
            want = model.native(kname, n)
            if not obs.expect(_same_native(native, want), 'wind_index(n) is the row-major native index',
                              lambda: {'kind': kname, 'n': n, 'got': repr(native), 'want': want, 'shape': kind.shape}):
                continue
            seen.add(tuple(native))
            back = obs.call('ravel_index', ems.ravel_index, native)
            if not isinstance(back, Failed):
                obs.expect(isinstance(back, (int, numpy.integer)) and int(back) == n, 'ravel_index(wind_index(n)) == n',
                           lambda: {'kind': kname, 'n': n, 'native': repr(native), 'back': back})
            # the native index built from the model alone must ravel to n as well (native -> linear -> native)
            mine = _with_token(want, token, itype)
            lin = obs.call('ravel_index', ems.ravel_index, mine)
            if not isinstance(lin, Failed):
                obs.expect(int(lin) == n, 'ravel_index(model native) == n',
                           lambda: {'kind': kname, 'native': want, 'got': lin, 'want': n})
                again = obs.call('wind_index', ems.wind_index, lin, grid_kind=token)
                if not isinstance(again, Failed):
                    obs.expect(_same_native(again, want), 'wind_index(ravel_index(native)) == native')
        # the deprecated alias unravel_index(linear_index, grid_kind) must agree with wind_index on every kind
        import warnings
        for n in sorted({0, size - 1, int(rng.integers(size))}):
            with warnings.catch_warnings():
                warnings.simplefilter('ignore')
                alias = obs.call('unravel_index (deprecated alias)', ems.unravel_index, n, token)
            if not isinstance(alias, Failed):
                obs.cls('alias:unravel_index')
                obs.expect(_same_native(alias, model.native(kname, n)), 'unravel_index(n, grid_kind) == wind_index(n, grid_kind=grid_kind)',
                           lambda: {'kind': kname, 'n': n, 'got': repr(alias), 'want': model.native(kname, n)}, mech='alias-differs')
        if 'x_first' in model.encoding:
            obs.cls('dataset-declares-x-before-y')
        obs.expect(len(seen) == size, 'number of distinct native indexes equals grid size',
                   lambda: {'kind': kname, 'distinct': len(seen), 'size': size})
        # linear indexes outside the grid must be rejected
        for n in list(range(-3, 0)) + list(range(size, size + 4)) + [size * 7 + 11, -size - 1, 2 ** 31 + 5]:
            r = obs.raises('wind_index(out of range)', ems.wind_index, itype(n) if abs(n) < 2 ** 31 else n, grid_kind=token,
                           mech='out-of-range-linear-accepted')
            if r is not None:
                obs.cls('out-of-range-rejected')
        # native indexes with one component outside must be rejected
        for pos in range(len(kind.shape)):
            for bad in (-1, kind.shape[pos], kind.shape[pos] + 1, -kind.shape[pos]):
                multi = list(kind.multi(int(rng.integers(size))))
                multi[pos] = bad
                native = _pack(model, kname, multi, token)
                r = obs.raises('ravel_index(out of range)', ems.ravel_index, native, mech='out-of-range-native-accepted')
                if r is not None:
                    obs.cls('out-of-range-rejected')


def _same_native(got, want):
    try:
        got = tuple(got)
    except TypeError:
        return False
    if len(got) != len(want):
        return False
    for g, w in zip(got, want):
        if isinstance(w, str):
            if str(getattr(g, 'value', g)) != w:
                return False
        else:
            if isinstance(g, bool) or not isinstance(g, (int, numpy.integer)) or int(g) != w:
                return False
    return True


def _with_token(native, token, itype):
    return tuple(token if isinstance(c, str) else itype(c) for c in native)


def _pack(model, kname, multi, token):
    if model.convention in ('cf1d', 'cf2d', 'shoc_simple'):
        return tuple(multi)
    return (token,) + tuple(multi)
