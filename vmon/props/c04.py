"""C04 - point lookup returns exactly the lowest-indexed intersecting cell."""
from shapely.geometry import Point

from ..common import Failed, nan_equal, quiet_warnings
from ..geomgen import all_vertices, brute_hits, model_polygons, polygon_matches, query_points
from ..model import CONVENTIONS, make_dressed

ANCHORS = [
    'emsarray.conventions._base:Convention.get_index_for_point',
    'emsarray.conventions._base:Convention.strtree',
    'emsarray.conventions._base:Convention.select_point',
]

META = {
    'rule': ('generated datasets of all conventions (holes, skewed cells, concave UGRID faces); per dataset every shared '
             'vertex of small grids plus 60-200 random points of the classes interior / shared_vertex / near_vertex / '
             'shared_edge / hole_interior / just_outside / far_outside; oracle = brute-force minimum over model polygons with '
             'the same GEOS intersects predicate; distinct = (convention, shape, holes, point); non-trivial = point that '
             'intersects >= 2 cells or none'),
    'min': {'evaluations': 5000, 'distinct': 300,
            'classes': {'tie:>=2-cells': 300, 'tie:>=4-cells': 30, 'miss': 300, 'hit': 1000, 'point:hole_interior': 30,
                        'point:just_outside': 100, 'select_point:refused': 100}},
    'must_reach': ['emsarray.conventions._base:Convention.get_index_for_point'],
    'assumptions': ['GEOS intersects decides both sides; polygon fidelity itself is C06'],
}


def run(ctx):
    obs = ctx.obs
    obs.extra['meta'] = META
    from ..model import set_cell_scale_varies
    set_cell_scale_varies(True)            # some datasets are 100 m / 5 m models expressed in degrees
    from ..model.grids import set_wide_longitudes
    set_wide_longitudes(True)      # also datasets in the 0..360 convention / straddling 180 degrees
    from ..model.grids import set_overlapping_cells
    set_overlapping_cells(True)    # CF 1-D grids whose stored bounds reach into the neighbouring cells
    total = ctx.n(480, 36000)
    for case, rng in ctx.cases(total):
        conv = CONVENTIONS[case % len(CONVENTIONS)]
        spec = {'case': case, 'convention': conv}
        ctx.run_case(spec, one_dataset, obs, rng, conv, spec, ctx)


def one_dataset(obs, rng, conv, spec, ctx):
    model = make_dressed(rng, conv, dress=dict(per_kind=(1, 1), nongrid=0, band=False))
    if model.encoding.get('overlapping_cells'):
        obs.cls('dataset:stored-bounds-overlap-the-neighbouring-cells')
    ds = model.encode()
    with quiet_warnings():
        ems = obs.call('dataset.ems', lambda: ds.ems)
        if isinstance(ems, Failed):
            return
        epolys = obs.call('polygons', lambda: ems.polygons)
    if isinstance(epolys, Failed):
        return
    spec['model'] = model.describe()
    polys = model_polygons(model)
    if model.derived_geometry:
        # Synthesised corners agree with the model only to 1e-9, which makes points ON a boundary undecidable from
        # the model.  The lookup is a statement relative to the cell polygons, so the brute force runs over the
        # polygon array itself here; its fidelity (within 1e-9 of the model) is asserted first (and is C06's job).
        ok = len(epolys) == len(polys)
        for n, (mp, ep) in enumerate(zip(polys, epolys)):
            if n in model.skip_cells:
                continue
            if (mp is None) != (ep is None) or (mp is not None and not polygon_matches(ep, model.cells[n], tol=1e-9, same_start=False)):
                ok = False
        if not obs.expect(ok, 'derived polygons agree with the model within 1e-9 (precondition of the point oracle)'):
            return
        polys = [None if (n in model.skip_cells) else p for n, p in enumerate(epolys)]
        obs.cls('oracle:brute-force-over-derived-polygon-array')
    for n in model.skip_cells:
        polys[n] = None     # degenerate derived cells: never asserted; points near them are filtered below
    face = model.kinds['face']
    pts = query_points(model, rng, int(rng.integers(60, 200)))
    verts = all_vertices(model)
    if len(verts) <= 80:
        pts += [(Point(*v), 'shared_vertex') for v in verts]
    face_vars = [n for n, v in model.variables.items() if v.kind == 'face']
    sampled = 0
    for pt, cls in pts:
        if model.skip_cells:
            # a point touching a degenerate cell has an undecidable expectation: skip it
            from shapely.geometry import Polygon
            if any(Polygon(model.cells[n]).buffer(1e-6).intersects(pt) for n in model.skip_cells):
                obs.cls('point-near-degenerate-cell-skipped')
                continue
        hits = brute_hits(polys, pt)
        want = min(hits) if hits else None
        obs.cls('point:' + cls)
        item = obs.call('get_index_for_point', ems.get_index_for_point, pt)
        if isinstance(item, Failed):
            continue
        if len(hits) >= 2:
            obs.cls('tie:>=2-cells')
        if len(hits) >= 4:
            obs.cls('tie:>=4-cells')
        if len(hits) != 1:
            obs.sig(conv, face.shape, model.describe()['holes'], pt.x, pt.y)
        if want is None:
            obs.cls('miss')
            obs.expect(item is None, 'point outside every cell yields no result (never a nearest cell)',
                       lambda: {'point': pt.wkt, 'class': cls, 'got': None if item is None else int(item.linear_index)},
                       mech='miss-returned-cell')
            r = obs.raises('select_point(outside)', ems.select_point, pt, exc_types=(ValueError,), mech='select-point-outside')
            if r is not None:
                obs.cls('select_point:refused')
            continue
        obs.cls('hit')
        if not obs.expect(item is not None, 'a point that intersects a cell must be found',
                          lambda: {'point': pt.wkt, 'class': cls, 'want': want, 'hits': hits}, mech='hit-not-found'):
            continue
        got_n = int(item.linear_index)
        good = obs.expect(got_n == want, 'lookup returns the LOWEST-indexed intersecting cell',
                          lambda: {'point': pt.wkt, 'class': cls, 'got': got_n, 'want': want, 'hits': hits}, mech='not-lowest-index')
        obs.expect(tuple(item.index) == tuple(model.native('face', got_n)) if not isinstance(item.index, int) else False,
                   'item.index is the native index of item.linear_index',
                   lambda: {'linear': got_n, 'index': repr(item.index), 'want': model.native('face', got_n)}, mech='item-inconsistent')
        obs.expect(0 <= got_n < face.size and model.cells[got_n] is not None and got_n not in model.invalid_cells
                   and polygon_matches(item.polygon, model.cells[got_n], tol=1e-9 if model.derived_geometry else 0.0, same_start=False),
                   'item.polygon is the polygon of item.linear_index (never a cell without geometry)',
                   lambda: {'linear': got_n, 'polygon': item.polygon.wkt if item.polygon is not None else None}, mech='item-inconsistent')
        if good and face_vars and (sampled < 12 or cls in ('shared_vertex', 'shared_edge')):
            sampled += 1
            sel = obs.call('select_point', ems.select_point, pt)
            if not isinstance(sel, Failed):
                for name in face_vars:
                    var = model.variables[name]
                    wantv = var.typed(var.canon)[..., want]
                    obs.expect(name in sel.variables and nan_equal(sel[name].values, wantv),
                               'select_point returns the values of the lowest-indexed intersecting cell',
                               lambda: {'var': name, 'want_cell': want}, mech='select-point-values')
        if len(obs.samples) < 4 and len(hits) >= 3:
            obs.sample({'convention': conv, 'shape': face.shape, 'point': pt.wkt, 'class': cls, 'intersecting cells': hits,
                        'returned linear_index': got_n, 'returned index': repr(item.index)})
