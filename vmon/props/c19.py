"""C19 - plot artists pair every value with its own cell."""
import math

import numpy

from ..common import Failed, nan_equal, quiet_warnings
from ..geomgen import model_polygons, ring_equal
from ..model import CONVENTIONS, make_dressed
from ..model.base import DTYPES, Var
from ..rng import chance, pick

ANCHORS = [
    'emsarray.conventions._base:Convention.make_poly_collection',
    'emsarray.plot:polygons_to_collection',
    'emsarray.conventions._base:Convention.make_quiver',
    'emsarray.plot:animate_on_figure',
    'emsarray.conventions._base:Convention.mask',
    'emsarray.conventions._base:Convention.face_centres',
    'emsarray.conventions.grid:CFGrid1D.face_centres',
    'emsarray.conventions.grid:CFGrid2D.face_centres',
    'emsarray.conventions.arakawa_c:ArakawaC.face_centres',
    'emsarray.conventions.ugrid:UGrid.face_centres',
]

META = {
    'rule': ('generated datasets of all conventions with isolated/line/block holes and bow-tie (dropped) cells, variables of '
             'every dtype on every grid kind with 0-3 extra dimensions in random order, plus a u/v pair with identical '
             'dimensions and a partner with different dimensions; artists built under the Agg backend without rendering '
             'or coastline data: make_poly_collection() / (name) / (DataArray reduced with isel) / on a dataset reduced '
             'with isel, with clim= / transform= / array= overrides; make_quiver on a GeoAxes or plain Axes by name and by '
             'array; animate_on_figure(coast=False, gridlines=False) frame by frame. Oracle: model rings, centres and '
             'canon[..., n] restricted to the cells with geometry. distinct = (convention, shape, holes, variable dims, '
             'call form); non-trivial = grid with >= 2 cells'),
    'min': {'evaluations': 1500, 'distinct': 200,
            'classes': {'dataset-with-holes': 30, 'collection:scalar': 300, 'collection:geometry-only': 60,
                        'collection:by-name': 60, 'collection:by-array': 150, 'collection:reduced-dataset': 30,
                        'collection:hole-before-plotted-cell': 60, 'collection:missing-values': 60,
                        'collection:cell-dims-transposed': 40, 'override:clim': 40, 'override:transform': 40,
                        'override:array': 40, 'refused:array-and-data': 40, 'refused:leftover-dimensions': 150,
                        'quiver:uv': 100, 'quiver:empty': 60, 'quiver:holes': 30, 'quiver:by-name': 20,
                        'refused:quiver-leftover-dimensions': 40, 'quiver:mismatched-dims': 40, 'animation': 20,
                        'animation-frame': 30}},
    'must_reach': ['emsarray.conventions._base:Convention.make_poly_collection', 'emsarray.plot:polygons_to_collection',
                   'emsarray.conventions._base:Convention.make_quiver', 'emsarray.plot:animate_on_figure'],
    'assumptions': ['matplotlib PolyCollection / Quiver keep paths, arrays, limits and positions as handed to them '
                    '(get_paths, get_array, get_clim, X, Y, U, V, Umask are read back; nothing is rendered)',
                    'numpy nanmin / nanmax', 'derived geometry (CF grids without stored bounds) compared with 1e-9',
                    'datasets with degenerate derived cells (model.skip_cells) are skipped',
                    'a variable on a non-face grid kind has no per-cell value: what happens to it is recorded, not asserted'],
}


def run(ctx):
    obs = ctx.obs
    obs.extra['meta'] = META
    from ..model import set_cell_scale_varies
    set_cell_scale_varies(True)            # some datasets are 100 m / 5 m models expressed in degrees
    from ..model.grids import set_wide_longitudes
    set_wide_longitudes(True)      # also datasets in the 0..360 convention / straddling 180 degrees
    total = ctx.n(320, 24000)
    for case, rng in ctx.cases(total):
        conv = CONVENTIONS[case % len(CONVENTIONS)]
        spec = {'case': case, 'convention': conv}
        ctx.run_case(spec, one_dataset, obs, rng, conv, spec, ctx)


# ---------------------------------------------------------------------------------------------------
# generation
# ---------------------------------------------------------------------------------------------------

def extras_of(model):
    """[(dim, size)] of the non-spatial dimensions the dressing produced (read off the generated variables / axes)."""
    out = {}
    if model.time is not None:
        out[model.time['dim']] = model.time['size']
    for d in model.depths:
        out[d['dim']] = len(d['values'])
    for v in model.variables.values():
        for d, s in v.extra:
            out.setdefault(d, s)
    return list(out.items())


def new_var(model, rng, name, dims, extra_sizes, dtype=None, fill=None, missing=0.15):
    kind = model.kinds['face']
    extra_in_order = [(d, extra_sizes[d]) for d in dims if d in extra_sizes]
    canon = model.fresh_ids(tuple(s for _, s in extra_in_order) + (kind.size,))
    if dtype is None:
        dtype, fill = DTYPES[int(rng.integers(len(DTYPES)))]
    if dtype == 'float32' and canon.max() >= 2 ** 24:
        dtype = 'float64'
    if dtype == 'int16' and canon.max() >= 32000:
        dtype = 'int32'
    if (dtype.startswith('float') or fill is not None) and missing:
        canon = numpy.where(rng.random(canon.shape) < missing, numpy.nan, canon)
    model.variables[name] = Var(name, 'face', extra_in_order, list(dims), canon, dtype, fill, attrs={'long_name': name, 'units': 'm s-1'})
    return model.variables[name]


def add_plot_variables(model, rng):
    kind = model.kinds['face']
    avail = dict(extras_of(model))
    cell = list(kind.dims)
    perm = [cell[k] for k in rng.permutation(len(cell))]
    # plain: no extra dimensions (plotted by name), cell dimensions possibly transposed
    new_var(model, rng, 'plain', perm, avail)
    # u / v with identical dimensions (0-2 extras, any order)
    chosen = [d for d in avail if chance(rng, 0.5)][:2]
    dims = chosen + [cell[k] for k in rng.permutation(len(cell))]
    dims = [dims[k] for k in rng.permutation(len(dims))]
    new_var(model, rng, 'qu', dims, avail)
    new_var(model, rng, 'qv', dims, avail)
    # a partner with different dimensions: transposed cell dimensions, or one more / one fewer extra dimension
    other = None
    if len(cell) == 2 and chance(rng, 0.6):
        i, j = dims.index(cell[0]), dims.index(cell[1])
        other = list(dims)
        other[i], other[j] = other[j], other[i]
    elif chosen:
        other = [d for d in dims if d != chosen[0]]
    elif avail:
        other = [next(iter(avail))] + dims
    if other is not None and other != dims:
        new_var(model, rng, 'qw', other, avail)
    # time series for the animation: (time, cell dims) in any order
    if model.time is not None:
        tdim = model.time['dim']
        for name in ('anim', 'anim_u', 'anim_v'):
            d = [tdim] + [cell[k] for k in rng.permutation(len(cell))]
            if name == 'anim':
                d = [d[k] for k in rng.permutation(len(d))]
                model.c19_anim_dims = d
            else:
                d = list(model.variables['anim_u'].dims) if name == 'anim_v' else [d[k] for k in rng.permutation(len(d))]
            new_var(model, rng, name, d, avail, dtype='float64' if name != 'anim' else None)


# ---------------------------------------------------------------------------------------------------
# oracle helpers
# ---------------------------------------------------------------------------------------------------

def filled(arr):
    """Values of a (possibly masked) matplotlib array with masked entries as NaN."""
    a = numpy.ma.asarray(arr)
    return numpy.ma.filled(a.astype(float), numpy.nan)


def clim_equal(got, want):
    if got is None or len(got) != 2:
        return False
    for g, w in zip(got, want):
        if g is None:
            return False
        g, w = float(g), float(w)
        if math.isnan(w) or math.isnan(g):
            if not (math.isnan(w) and math.isnan(g)):
                return False
        elif g != w:
            return False
    return True


def check_paths(obs, model, plotted, collection, what):
    """one patch per cell with geometry, in linear order, each with that cell's outline"""
    paths = collection.get_paths()
    if not obs.expect(len(paths) == len(plotted), what + ': one patch per cell that has geometry',
                      lambda: {'patches': len(paths), 'cells with geometry': len(plotted), 'cells': model.size}, mech='patch-count'):
        return False
    tol = 1e-9 if model.derived_geometry else 0.0
    good = True
    for k, n in enumerate(plotted):
        verts = numpy.asarray(paths[k].vertices)
        ring = [tuple(p) for p in model.cells[n]]
        if len(ring) > 1 and ring[0] == ring[-1]:
            ring = ring[:-1]
        closed = len(verts) >= 2 and tuple(verts[0]) == tuple(verts[-1])
        got = [tuple(float(c) for c in v) for v in (verts[:-1] if closed else verts)]
        ok = obs.expect(closed and ring_equal(got, ring, tol=tol, same_start=False),
                        what + ': patch k is the outline of the k-th cell that has geometry',
                        lambda: {'k': k, 'cell': n, 'got': got, 'want': ring}, mech='patch-outline')
        good = good and ok
    return good


def check_values(obs, collection, want, what, detail):
    arr = collection.get_array()
    if not obs.expect(arr is not None and numpy.shape(arr) == want.shape, what + ': one value per patch',
                      lambda: dict(detail, got_shape=None if arr is None else numpy.shape(arr), want_shape=want.shape), mech='value-count'):
        return False
    got = filled(arr)
    return obs.expect(nan_equal(got, want.astype(float)), what + ': value k belongs to the cell of patch k',
                      lambda: dict(detail, got=got, want=want), mech='value-pairing')


# ---------------------------------------------------------------------------------------------------
# one dataset
# ---------------------------------------------------------------------------------------------------

def one_dataset(obs, rng, conv, spec, ctx):
    from matplotlib.figure import Figure
    from matplotlib.transforms import Affine2D
    import cartopy.crs as ccrs
    kw = {}
    if conv in ('cf2d', 'shoc_simple') and chance(rng, 0.4):
        # cells without geometry AND a cell with a self-crossing outline (dropped from the collection) in one dataset: the
        # position of a cell among the drawn ones then differs from its linear index in two ways at once
        kw = dict(bounds=pick(rng, ['var', 'coord']), bowtie=True, nj=int(rng.integers(3, 7)), ni=int(rng.integers(3, 7)),
                  holes=pick(rng, ['scatter', 'line', 'block', 'mixed']))
    model = make_dressed(rng, conv, dress=dict(time=chance(rng, 0.7), depth=chance(rng, 0.6), band=chance(rng, 0.3),
                                               per_kind=(1, 2), nongrid=1), **kw)
    if model.encoding.get('bowtie') and any(c is None for c in model.cells):
        obs.cls('dataset:holes-and-an-invalid-outline')
    add_plot_variables(model, rng)
    spec['model'] = model.describe()
    if model.skip_cells:
        obs.cls('dataset-with-degenerate-derived-cells-skipped')
        return
    ds = model.encode()
    with quiet_warnings():
        ems = obs.call('dataset.ems', lambda: ds.ems)
        if isinstance(ems, Failed):
            return
        warm = obs.call('polygons', lambda: ems.polygons)
    if isinstance(warm, Failed):
        return
    face = model.kinds['face']
    size = face.size
    polys = model_polygons(model)
    plotted = [n for n in range(size) if polys[n] is not None]        # cells with geometry, linear order
    holes = [n for n in range(size) if polys[n] is None]
    if holes:
        obs.cls('dataset-with-holes')
    if model.invalid_cells:
        obs.cls('dataset-with-bow-tie')
    if not plotted:
        # no cell has geometry at all: nothing to plot, "the plotted values" is an empty set and has no limits; the
        # property decides nothing about such a dataset (emsarray raises from the empty reduction)
        obs.cls('dataset-without-any-geometry-not-asserted')
        return
    idx = numpy.array(plotted, dtype=int)
    hole_before = bool(holes) and bool(plotted) and min(holes) < max(plotted)
    shape_sig = (conv, face.shape, tuple(holes))

    def selection(var):
        return {d: int(rng.integers(s)) for d, s in var.extra}

    def expected(var, sel):
        """typed values of the variable at the selected extra indexes, one per cell (linear order)"""
        vals = var.typed(var.canon)
        return vals[tuple(sel[d] for d in var.extra_dims) + (slice(None),)]

    def check_collection(collection, var, sel, what, default_clim=True):
        ok = check_paths(obs, model, plotted, collection, what)
        want = expected(var, sel)[idx] if len(idx) else expected(var, sel)[:0]
        detail = {'variable': var.name, 'dims': var.dims, 'selection': sel, 'holes': holes[:8]}
        ok = check_values(obs, collection, want, what, detail) and ok
        if hole_before:
            obs.cls('collection:hole-before-plotted-cell')
        wf = want.astype(float)
        if var.dtype.startswith('float') and numpy.isnan(wf).any():
            obs.cls('collection:missing-values')
        if default_clim:
            finite = wf[~numpy.isnan(wf)]
            if finite.size:
                lim = (float(finite.min()), float(finite.max()))
                obs.expect(clim_equal(collection.get_clim(), lim), what + ': default colour limits span exactly the plotted values',
                           lambda: dict(detail, got=collection.get_clim(), want=lim), mech='default-clim')
            else:
                obs.cls('collection:no-finite-value-clim-not-asserted')
        return ok

    # ---- geometry only -----------------------------------------------------------------------------------
    with quiet_warnings():
        col = obs.call('make_poly_collection()', ems.make_poly_collection)
    if not isinstance(col, Failed):
        obs.cls('collection:geometry-only')
        check_paths(obs, model, plotted, col, 'geometry only')
        obs.expect(col.get_array() is None, 'geometry only: no values attached', lambda: {'array': col.get_array()})

    # ---- scalar variables -----------------------------------------------------------------------------------
    sampled = False
    for name, var in list(model.variables.items()):
        da = ds[name]
        if var.kind is None:
            obs.evaluation()
            try:
                with quiet_warnings():
                    ems.make_poly_collection(da)
            except Exception as exc:  # noqa: BLE001  (the statement is silent on variables without cell dimensions)
                obs.cls('not-asserted:non-grid-variable:refused:' + type(exc).__name__)
            else:
                obs.cls('not-asserted:non-grid-variable:returned')
            continue
        if var.extra:
            # leftover non-spatial dimensions: refused, never plotted (any grid kind, by name or as an array)
            arg = name if chance(rng, 0.5) else da
            with quiet_warnings():
                exc = obs.raises('make_poly_collection(variable with leftover dimensions)', ems.make_poly_collection, arg,
                                 exc_types=(ValueError,), mech='leftover-dimensions-plotted')
            if exc is not None:
                obs.cls('refused:leftover-dimensions')
            if len(var.extra) >= 2:
                part = {var.extra[0][0]: 0}
                with quiet_warnings():
                    exc = obs.raises('make_poly_collection(partly reduced variable)', ems.make_poly_collection, da.isel(part),
                                     exc_types=(ValueError,), mech='leftover-dimensions-plotted')
                if exc is not None:
                    obs.cls('refused:leftover-dimensions')
        sel = selection(var)
        if var.kind != 'face':
            obs.evaluation()
            try:
                with quiet_warnings():
                    ems.make_poly_collection(da.isel(sel))
            except Exception as exc:  # noqa: BLE001
                obs.cls('not-asserted:non-face-variable:refused:' + type(exc).__name__)
            else:
                same = model.kinds[var.kind].size == size
                obs.cls('not-asserted:non-face-variable:returned' + (':same-size-as-faces' if same else ''))
            continue
        # --- face variable ---
        cellpos = [list(var.dims).index(d) for d in face.dims]
        transposed = cellpos != sorted(cellpos)
        forms = []
        if not var.extra:
            forms.append('by-name')
        forms.append('by-array')
        if var.extra and chance(rng, 0.35):
            forms.append('reduced-dataset')
        for form in forms:
            with quiet_warnings():
                if form == 'by-name':
                    col = obs.call('make_poly_collection(name)', ems.make_poly_collection, name)
                elif form == 'by-array':
                    col = obs.call('make_poly_collection(DataArray)', ems.make_poly_collection, da.isel(sel))
                else:
                    reduced = ds.isel(sel)
                    col = obs.call('make_poly_collection(name) on reduced dataset', lambda: reduced.ems.make_poly_collection(name))
            if isinstance(col, Failed):
                continue
            obs.cls('collection:scalar')
            obs.cls('collection:' + form)
            if transposed:
                obs.cls('collection:cell-dims-transposed')
            if size >= 2:
                obs.sig(shape_sig, var.dims, form, tuple(sorted(sel.items())))
            good = check_collection(col, var, sel, form)
            if good and not sampled and hole_before and len(plotted) >= 3:
                sampled = True
                obs.sample({'convention': conv, 'grid': face.shape, 'cells without geometry': holes[:8], 'variable': name,
                            'dims': var.dims, 'selected': sel, 'form': form, 'patches': len(col.get_paths()),
                            'first plotted cells': plotted[:6], 'their values': filled(col.get_array())[:6], 'clim': col.get_clim()})
        # --- a second slice of the SAME variable on the same convention object: nothing remembered from the first call
        #     (by variable name, say) may leak into the second collection
        if var.extra and any(s > 1 for _, s in var.extra):
            sel2 = dict(sel)
            d, sz = pick(rng, [(d, s) for d, s in var.extra if s > 1])
            sel2[d] = (sel[d] + 1 + int(rng.integers(sz - 1))) % sz
            with quiet_warnings():
                col2 = obs.call('make_poly_collection(another slice of the same variable)', ems.make_poly_collection, da.isel(sel2))
            if not isinstance(col2, Failed):
                obs.cls('collection:second-slice-of-same-variable')
                check_collection(col2, var, sel2, 'second-slice')
        # --- overrides ---
        choice = pick(rng, ['clim', 'transform', 'array', 'both', 'clim+transform'])
        reduced_da = da.isel(sel)
        with quiet_warnings():
            if choice in ('clim', 'clim+transform'):
                lim = (float(rng.uniform(-5, 0)), float(rng.uniform(1, 9)))
                kw = {'clim': lim}
                tr = None
                if choice == 'clim+transform':
                    tr = Affine2D().scale(float(rng.uniform(1, 3)))
                    kw['transform'] = tr
                col = obs.call('make_poly_collection(clim=)', ems.make_poly_collection, reduced_da, **kw)
                if not isinstance(col, Failed):
                    obs.cls('override:clim')
                    check_collection(col, var, sel, 'clim override', default_clim=False)
                    obs.expect(clim_equal(col.get_clim(), lim), 'user supplied clim is kept', lambda: {'got': col.get_clim(), 'want': lim},
                               mech='override-ignored')
                    if tr is not None:
                        obs.cls('override:transform')
                        obs.expect(col.get_transform() is tr, 'user supplied transform is kept', lambda: {'got': repr(col.get_transform())},
                                   mech='override-ignored')
            elif choice == 'transform':
                if chance(rng, 0.5):
                    tr = Affine2D().translate(float(rng.uniform(-1, 1)), 0.5)
                    col = obs.call('make_poly_collection(transform=)', ems.make_poly_collection, reduced_da, transform=tr)
                    if not isinstance(col, Failed):
                        obs.cls('override:transform')
                        check_collection(col, var, sel, 'transform override')
                        obs.expect(col.get_transform() is tr, 'user supplied transform is kept', lambda: {'got': repr(col.get_transform())},
                                   mech='override-ignored')
                else:
                    crs = ccrs.PlateCarree(central_longitude=180)
                    col = obs.call('make_poly_collection(transform=crs)', ems.make_poly_collection, transform=crs)
                    if not isinstance(col, Failed):
                        obs.cls('override:transform')
                        check_paths(obs, model, plotted, col, 'transform override (geometry only)')
                        obs.expect(getattr(col, '_transform', None) is crs, 'user supplied transform is kept',
                                   lambda: {'got': repr(getattr(col, '_transform', None))}, mech='override-ignored')
            elif choice == 'array':
                mine = model.fresh_ids((len(plotted),))
                col = obs.call('make_poly_collection(array=)', ems.make_poly_collection, array=mine)
                if not isinstance(col, Failed):
                    obs.cls('override:array')
                    check_paths(obs, model, plotted, col, 'array override')
                    check_values(obs, col, mine, 'array override', {'holes': holes[:8]})
            else:
                exc = obs.raises('make_poly_collection(data, array=)', ems.make_poly_collection, reduced_da,
                                 array=numpy.zeros(len(plotted)), exc_types=(TypeError,), mech='array-and-data-accepted')
                if exc is not None:
                    obs.cls('refused:array-and-data')

    # ---- quiver ---------------------------------------------------------------------------------------------
    figure = Figure()
    geo = chance(rng, 0.6)
    axes = figure.add_subplot(projection=ccrs.PlateCarree()) if geo else figure.add_subplot()
    centres = numpy.array([[numpy.nan, numpy.nan] if c is None else [c[0], c[1]] for c in model.centres], dtype=float).reshape(size, 2)
    ctol = 1e-9 if (getattr(model, 'centre_source', '') == 'centroid' or model.derived_geometry) else 0.0

    def check_positions(q, what):
        ok = obs.expect(int(q.N) == size and numpy.shape(q.X) == (size,) and numpy.shape(q.Y) == (size,),
                        what + ': one arrow position per cell', lambda: {'N': q.N, 'cells': size}, mech='quiver-length')
        if not ok:
            return False
        gx, gy = numpy.asarray(q.X, dtype=float), numpy.asarray(q.Y, dtype=float)
        same = True
        for n in range(size):
            for g, w in ((gx[n], centres[n, 0]), (gy[n], centres[n, 1])):
                if math.isnan(w) or math.isnan(g):
                    same = same and (math.isnan(w) and math.isnan(g))
                else:
                    same = same and abs(g - w) <= ctol * max(1.0, abs(w))
        return obs.expect(same, what + ': arrows sit at the face centres, in linear order',
                          lambda: {'X': gx, 'Y': gy, 'centres': centres}, mech='quiver-position')

    def check_components(q, want_u, want_v, what, detail):
        ok = True
        mask = numpy.ma.getmaskarray(numpy.ma.masked_invalid(want_u.astype(float))) | numpy.ma.getmaskarray(numpy.ma.masked_invalid(want_v.astype(float)))
        for comp, got, want in (('U', q.U, want_u), ('V', q.V, want_v)):
            got = numpy.asarray(got)
            if not obs.expect(got.shape == want.shape, what + ': one %s component per cell' % comp,
                              lambda: dict(detail, got=got.shape, want=want.shape), mech='quiver-length'):
                ok = False
                continue
            w = want.astype(float)
            valid = ~numpy.isnan(w)
            ok = obs.expect(bool(numpy.array_equal(got.astype(float)[valid], w[valid])),
                            what + ': component %s[k] belongs to cell k of the %s variable' % (comp, comp.lower()),
                            lambda: dict(detail, component=comp, got=got, want=w), mech='quiver-pairing') and ok
        umask = numpy.ma.getmaskarray(numpy.ma.array(numpy.zeros(size), mask=getattr(q, 'Umask', False)))
        if umask.shape == mask.shape:
            ok = obs.expect(bool(numpy.array_equal(umask, mask)), what + ': exactly the cells with a missing component are masked',
                            lambda: dict(detail, got=umask, want=mask), mech='quiver-pairing') and ok
        return ok

    qu, qv = model.variables['qu'], model.variables['qv']
    sel = selection(qu)
    with quiet_warnings():
        by_name = not qu.extra and chance(rng, 0.6)
        if by_name:
            q = obs.call('make_quiver(axes, name, name)', ems.make_quiver, axes, 'qu', 'qv')
        else:
            q = obs.call('make_quiver(axes, u, v)', ems.make_quiver, axes, ds['qu'].isel(sel), ds['qv'].isel(sel))
    if not isinstance(q, Failed):
        obs.cls('quiver:uv')
        obs.cls('quiver:geoaxes' if geo else 'quiver:plain-axes')
        if by_name:
            obs.cls('quiver:by-name')
        if holes:
            obs.cls('quiver:holes')
        if size >= 2:
            obs.sig(shape_sig, qu.dims, 'quiver', tuple(sorted(sel.items())), geo)
        check_positions(q, 'quiver')
        # without a user supplied transform the arrows are placed in the coordinate reference system of the dataset, as the
        # patches are
        obs.expect(getattr(q, 'transform', None) is ems.data_crs, 'default transform of the quiver is the data CRS of the dataset',
                   lambda: {'got': repr(getattr(q, 'transform', None))}, mech='default-transform')
        good = check_components(q, expected(qu, sel), expected(qv, sel), 'quiver', {'dims': qu.dims, 'selection': sel})
        if good and len(obs.samples) < 3 and size >= 3:
            obs.sample({'convention': conv, 'grid': face.shape, 'quiver of': ['qu', 'qv'], 'dims': qu.dims, 'selected': sel,
                        'X[:4]': numpy.asarray(q.X)[:4], 'Y[:4]': numpy.asarray(q.Y)[:4], 'U[:4]': numpy.asarray(q.U)[:4],
                        'V[:4]': numpy.asarray(q.V)[:4], 'cells without geometry': holes[:6]})
    # ---- a user supplied transform is kept by the quiver as it is by the patch collection
    if chance(rng, 0.4):
        tr = Affine2D().translate(float(rng.uniform(-1, 1)), 0.25)
        with quiet_warnings():
            q2 = obs.call('make_quiver(axes, u, v, transform=)', ems.make_quiver, axes, ds['qu'].isel(sel), ds['qv'].isel(sel), transform=tr)
        if not isinstance(q2, Failed):
            obs.cls('override:quiver-transform')
            obs.expect(getattr(q2, 'transform', None) is tr, 'user supplied transform is kept by make_quiver',
                       lambda: {'got': repr(getattr(q2, 'transform', None))}, mech='override-ignored')
            check_components(q2, expected(qu, sel), expected(qv, sel), 'quiver with transform override', {'dims': qu.dims, 'selection': sel})
    # ---- the convenience entry point: a scalar AND a vector pair on one figure (no coast, no gridlines: nothing is
    #      fetched or rendered); both artists must be on the axes, each paired with its own cells
    if chance(rng, 0.4):
        from matplotlib.collections import PolyCollection as _PC
        from matplotlib.figure import Figure as _Figure
        from matplotlib.quiver import Quiver as _Quiver
        fig2 = _Figure()
        with quiet_warnings():
            r = obs.call('plot_on_figure(scalar=, vector=)', ems.plot_on_figure, fig2, scalar=ds['qu'].isel(sel),
                         vector=(ds['qu'].isel(sel), ds['qv'].isel(sel)), coast=False, gridlines=False)
        if not isinstance(r, Failed):
            obs.cls('plot_on_figure:scalar+vector')
            arts = [a for ax in fig2.axes for a in ax.get_children()]
            cols = [a for a in arts if isinstance(a, _PC) and not isinstance(a, _Quiver)]     # (a Quiver is a PolyCollection too)
            quivers = [a for a in arts if isinstance(a, _Quiver)]
            if obs.expect(len(cols) == 1 and len(quivers) == 1, 'plot_on_figure with a scalar and a vector draws one patch collection and one quiver',
                          lambda: {'collections': len(cols), 'quivers': len(quivers)}, mech='plot-artist-missing'):
                vals = expected(qu, sel)[idx].astype(float) if len(idx) else numpy.array([])
                distinct = numpy.unique(vals[~numpy.isnan(vals)])
                # (plot_on_figure adds a colour bar, and matplotlib widens a singular norm in place: limits asserted only
                #  when at least two different values are plotted)
                check_collection(cols[0], qu, sel, 'plot_on_figure', default_clim=len(distinct) >= 2)
                check_positions(quivers[0], 'plot_on_figure quiver')
                check_components(quivers[0], expected(qu, sel), expected(qv, sel), 'plot_on_figure quiver', {'dims': qu.dims, 'selection': sel})
    # ---- the deprecated alias must behave like make_poly_collection
    if chance(rng, 0.4):
        import warnings as _w
        with _w.catch_warnings():
            _w.simplefilter('ignore')
            col = obs.call('make_patch_collection (deprecated alias)', ems.make_patch_collection, ds['qu'].isel(sel))
        if not isinstance(col, Failed):
            obs.cls('alias:make_patch_collection')
            check_collection(col, qu, sel, 'make_patch_collection')
    if qu.extra:
        with quiet_warnings():
            exc = obs.raises('make_quiver(u, v with leftover dimensions)', ems.make_quiver, axes,
                             'qu' if chance(rng, 0.5) else ds['qu'], 'qv' if chance(rng, 0.5) else ds['qv'],
                             exc_types=(ValueError,), mech='leftover-dimensions-plotted')
        if exc is not None:
            obs.cls('refused:quiver-leftover-dimensions')
    else:
        # give both components the same leftover dimension
        ext = [(d, s) for d, s in extras_of(model)]
        if ext:
            d, s = ext[0]
            u2 = ds['qu'].expand_dims({d: s})
            v2 = ds['qv'].expand_dims({d: s})
            with quiet_warnings():
                exc = obs.raises('make_quiver(u, v with leftover dimensions)', ems.make_quiver, axes, u2, v2,
                                 exc_types=(ValueError,), mech='leftover-dimensions-plotted')
            if exc is not None:
                obs.cls('refused:quiver-leftover-dimensions')
    if 'qw' in model.variables:
        qw = model.variables['qw']
        selw = {d: sel.get(d, 0) for d in qw.extra_dims}
        u_arg, v_arg = ds['qu'].isel(sel), ds['qw'].isel(selw)
        if tuple(u_arg.dims) != tuple(v_arg.dims):
            obs.cls('quiver:mismatched-dims')
            obs.evaluation()
            try:
                with quiet_warnings():
                    q = ems.make_quiver(axes, u_arg, v_arg)
            except ValueError:
                obs.cls('quiver:mismatched-dims:refused')
                obs.ok()
            except Exception as exc:  # noqa: BLE001
                obs.fail('make_quiver(mismatched dims) raised %s' % type(exc).__name__, {'message': str(exc)[:300]}, mech='quiver-mismatch')
            else:
                # the statement only demands that what IS plotted pairs the components of the same cell
                obs.cls('quiver:mismatched-dims:plotted')
                if check_positions(q, 'quiver (different dimension order)') and not set(v_arg.dims) - set(face.dims):
                    check_components(q, expected(qu, sel), expected(qw, selw), 'quiver (different dimension order)', {'u': qu.dims, 'v': qw.dims})
    with quiet_warnings():
        q = obs.call('make_quiver(axes)', ems.make_quiver, axes)
    if not isinstance(q, Failed):
        obs.cls('quiver:empty')
        check_positions(q, 'quiver without data')

    # ---- animation ------------------------------------------------------------------------------------------
    if model.time is not None and 'anim' in model.variables and chance(rng, 0.5):
        animate(obs, rng, model, ds, ems, plotted, idx, holes, conv)


def animate(obs, rng, model, ds, ems, plotted, idx, holes, conv):
    from matplotlib.figure import Figure
    import emsarray.plot
    tname, nt = model.time['name'], model.time['size']
    var = model.variables['anim']
    with_vector = chance(rng, 0.5)
    kw = {'scalar': ds['anim']}
    if with_vector:
        kw['vector'] = (ds['anim_u'], ds['anim_v'])
    figure = Figure()
    with quiet_warnings():
        kw['repeat'] = pick(rng, [True, False, 'bounce', 'cycle'])
        kw['title'] = pick(rng, [None, 'frame {}', lambda value: 'at %s' % value])
        anim = obs.call('animate_on_figure', emsarray.plot.animate_on_figure, figure, ems, coordinate=ds[tname],
                        gridlines=False, coast=False, **kw)
    if isinstance(anim, Failed):
        return
    obs.cls('animation')
    anim._draw_was_started = True           # nothing is rendered: silence matplotlib's "deleted without rendering" warning
    try:
        anim.event_source.stop()
    except Exception:  # noqa: BLE001
        pass
    axes = figure.axes[0]
    from matplotlib.collections import PolyCollection
    from matplotlib.quiver import Quiver
    cols = [c for c in axes.collections if isinstance(c, PolyCollection) and not isinstance(c, Quiver)]
    quivers = [c for c in axes.collections if isinstance(c, Quiver)]
    if not obs.expect(len(cols) == 1 and len(quivers) == (1 if with_vector else 0), 'animation: one polygon collection (and one quiver)',
                      lambda: {'collections': [type(c).__name__ for c in axes.collections]}):
        return
    col = cols[0]
    vals = var.typed(var.canon)                 # (time, cell)
    shown = vals[:, idx].astype(float)
    check_paths(obs, model, plotted, col, 'animation')
    finite = shown[~numpy.isnan(shown)]
    if finite.size and finite.min() == finite.max():
        # the colour bar drawn by animate_on_figure widens a singular norm in place (matplotlib `nonsingular`): not emsarray's doing
        obs.cls('animation:single-plotted-value-clim-not-asserted')
    elif finite.size:
        lim = (float(finite.min()), float(finite.max()))
        obs.expect(clim_equal(col.get_clim(), lim), 'animation: colour limits span exactly the plotted values of all frames',
                   lambda: {'got': col.get_clim(), 'want': lim, 'holes': holes[:8]}, mech='default-clim')
    frame = getattr(anim, '_func', None)
    if frame is None:
        obs.cls('animation:frame-function-not-accessible')
        return
    for k in range(nt):
        with quiet_warnings():
            r = obs.call('animation frame', frame, k)
        if isinstance(r, Failed):
            continue
        obs.cls('animation-frame')
        check_values(obs, col, vals[k, idx] if len(idx) else vals[k, :0], 'animation frame',
                     {'frame': k, 'dims': var.dims, 'holes': holes[:8]})
        if with_vector:
            q = quivers[0]
            for comp, got, name in (('U', q.U, 'anim_u'), ('V', q.V, 'anim_v')):
                w = model.variables[name].typed(model.variables[name].canon)[k].astype(float)
                valid = ~numpy.isnan(w)
                got = numpy.asarray(got, dtype=float)
                obs.expect(got.shape == w.shape and bool(numpy.array_equal(got[valid], w[valid])),
                           'animation frame: quiver component %s[k] belongs to cell k at that time' % comp,
                           lambda: {'frame': k, 'component': comp, 'got': got, 'want': w}, mech='quiver-pairing')
