"""Shared workload of C08 (values after clipping) and C09 (validity / geometry after clipping)."""
import os
import shutil
import tempfile

import netCDF4
import numpy
import xarray

from .. import contracts
from ..common import Failed, nan_equal, quiet_warnings
from ..geomgen import brute_hits, clip_geometries, model_polygons, polygon_matches
from ..model import CONVENTIONS, make_dressed
from ..model.ugrid import OPTIONAL_TABLES, all_supplied_subsets
from ..oracles import clip as oracle
from ..oracles.points import oracle_polygons
from .c10 import rows_of

TABLE_VARS = {'face_node': 'face_nodes', 'edge_node': 'edge_nodes', 'face_edge': 'face_edges',
              'edge_face': 'edge_faces', 'face_face': 'face_faces'}


def run(ctx, mode, meta):
    obs = ctx.obs
    obs.extra['meta'] = meta
    contracts.attach_all(obs, only={'blur_mask', 'smear_mask', 'c_mask_from_centres', 'buffer_faces', 'mask_from_face_indexes'})
    total = ctx.n(*meta['totals'])
    subsets = all_supplied_subsets()
    for case, rng in ctx.cases(total):
        conv = CONVENTIONS[case % len(CONVENTIONS)]
        kw = {}
        if conv == 'ugrid':
            kw['supplied'] = subsets[(case // len(CONVENTIONS)) % len(subsets)]
            if (case // (len(CONVENTIONS) * len(subsets))) % 3 == 2 and kw['supplied'] in ((), ('face_edge',), ('edge_node',)):
                # every third pass: a mesh that knows its face neighbours and nothing at all about edges (no edge
                # dimension, no edge table); the neighbour table must be renumbered with the faces all the same
                kw['supplied'] = ('face_face',)
            if kw['supplied'] == ('face_face',):
                kw['declare_edge_dim'] = False
        spec = {'case': case, 'convention': conv, 'kw': {k: list(v) if isinstance(v, tuple) else v for k, v in kw.items()}}
        ctx.run_case(spec, one_case, obs, rng, conv, kw, spec, mode)


def one_case(obs, rng, conv, kw, spec, mode):
    work = tempfile.mkdtemp(prefix='clip')
    try:
        _one_case(obs, rng, conv, kw, spec, mode, work)
    finally:
        shutil.rmtree(work, ignore_errors=True)


def _one_case(obs, rng, conv, kw, spec, mode, work):
    import emsarray
    source = 'disk' if rng.random() < 0.35 else 'memory'
    from ..model.base import DTYPES, DTYPES_WITH_DATETIME
    # gridded datetime64 variables (e.g. "time of last wetting") only for in-memory sources: once such a variable has
    # time units in its encoding, the generic conventions may take it for THE time coordinate, which is not our subject
    dtypes = DTYPES_WITH_DATETIME if source == 'memory' else DTYPES
    model = make_dressed(rng, conv, dress=dict(time=True, per_kind=(1, 2), nongrid=1, max_extra=2, dtypes=dtypes), **kw)
    if model.skip_cells:
        obs.cls('dataset-with-degenerate-derived-cells-skipped')
        return
    history = ['direct', 'direct', 'direct', 'via-file', 'via-file', 'mask-reused'][int(rng.integers(6))]
    spec.update(model=model.describe(), source=source, history=history)

    counter = [0]

    def materialise(m, tag):
        ds = m.encode()
        if source == 'disk':
            counter[0] += 1
            path = os.path.join(work, 'input_%s%d.nc' % (tag, counter[0]))
            ds.to_netcdf(path)
            ds = emsarray.open_dataset(path)
        return ds

    with quiet_warnings():
        ds = materialise(model, 'a')
        ems = obs.call('dataset.ems', lambda: ds.ems)
        if isinstance(ems, Failed):
            return
        epolys = obs.call('polygons', lambda: ems.polygons)
    if isinstance(epolys, Failed):
        return
    polys = oracle_polygons(obs, model, epolys)
    if polys is None or not any(p is not None for p in polys):
        return
    if mode == 'validity':
        check_subset_of_original(obs, model, ems, epolys, rng)
    geoms = clip_geometries(model, rng, 2)
    # a selection with gaps (cells that are not selected although all their vertices / edges belong to selected cells)
    geoms += clip_geometries(model, rng, 1, classes=['around_one_cell', 'scattered_cells'])
    for g, gcls in geoms:
        b = int(rng.integers(0, 3))
        if gcls in ('around_one_cell', 'scattered_cells') and rng.random() < 0.6:
            b = 0           # a buffer ring closes the gaps again
        s0 = brute_hits(polys, g)
        if not s0:
            obs.cls('empty-selection-not-asserted')
            continue
        obs.cls('geom:' + gcls)
        obs.cls('buffer=%d' % b)
        obs.cls('source:' + source)
        obs.cls('history:' + history)
        spec.update(geometry=gcls, wkt=g.wkt[:300], buffer=b)
        bkw = {'buffer': b}
        if b == 0 and rng.random() < 0.5:
            bkw = {}                    # the documented default: no buffer
            obs.cls('buffer-argument-omitted')
        edge_rows = None
        if conv == 'ugrid' and model.has_edges and 'face_edge' not in model.encoding['supplied']:
            if 'edge_node' in model.encoding['supplied']:
                edge_rows = [list(r) for r in model.s_edges]       # the file's own edge numbering is the one that counts
            else:
                edge_rows = obs.call('edge_node_array', lambda: rows_of(ems.topology.edge_node_array))
                if isinstance(edge_rows, Failed):
                    continue
        selection = oracle.expected_selection(model, s0, b, edge_rows)
        cdir = tempfile.mkdtemp(prefix='w', dir=work)
        target_model = model
        src_ds = ds
        with quiet_warnings():
            if history == 'direct':
                out = obs.call('clip', ems.clip, g, cdir, mech=classify_exception, **bkw)
            elif history == 'mask-reused':
                # one mask object, applied first to this dataset and then to a twin with the same geometry: applying a mask
                # must not use it up
                mask = obs.call('make_clip_mask', ems.make_clip_mask, g, **bkw)
                if isinstance(mask, Failed):
                    continue
                first = obs.call('apply_clip_mask (first use of the mask)', ems.apply_clip_mask, mask, cdir, mech=classify_exception)
                if isinstance(first, Failed) or isinstance(obs.call('clipped.load', first.load), Failed):
                    continue
                if mode == 'values':
                    check_values(obs, model, first, selection, source, ds)
                first.close()
                target_model = oracle.twin_with_new_values(model)
                ds_b = materialise(target_model, 'b')
                src_ds = ds_b
                ems_b = obs.call('dataset_b.ems', lambda: ds_b.ems)
                if isinstance(ems_b, Failed):
                    continue
                cdir2 = tempfile.mkdtemp(prefix='w', dir=work)
                out = obs.call('apply_clip_mask (second use of the same mask)', ems_b.apply_clip_mask, mask, cdir2, mech=classify_exception)
            else:
                target_model = oracle.twin_with_new_values(model)
                ds_b = materialise(target_model, 'b')
                src_ds = ds_b
                mask = obs.call('make_clip_mask', ems.make_clip_mask, g, **bkw)
                if isinstance(mask, Failed):
                    continue
                mpath = os.path.join(cdir, 'mask_saved.nc')
                saved = obs.call('mask.to_netcdf', mask.to_netcdf, mpath)
                if isinstance(saved, Failed):
                    continue
                mask2 = xarray.open_dataset(mpath)
                ems_b = obs.call('dataset_b.ems', lambda: ds_b.ems)
                if isinstance(ems_b, Failed):
                    continue
                out = obs.call('apply_clip_mask(reloaded mask)', ems_b.apply_clip_mask, mask2, cdir, mech=classify_exception)
                mask2.close()
            if isinstance(out, Failed):
                continue
            loaded = obs.call('clipped.load', out.load)
            if isinstance(loaded, Failed):
                continue
        obs.sig(conv, model.kinds['face'].shape, model.describe()['holes'], gcls, hash(g.wkt), b, history, source,
                tuple(sorted((n, v.dims, v.dtype) for n, v in model.variables.items())))
        if mode == 'values':
            check_values(obs, target_model, out, selection, source, src_ds)
        else:
            check_validity(obs, target_model, out, selection, source, work, rng)
        if len(obs.samples) < 3 and len(selection['face']) < model.kinds['face'].size:
            obs.sample({'convention': conv, 'kinds': {k: list(v.shape) for k, v in model.kinds.items()}, 'geometry': gcls, 'buffer': b,
                        'history': history, 'source': source, 'selected faces': selection['face'][:20],
                        'output sizes': dict(out.sizes)})
        out.close()
        shutil.rmtree(cdir, ignore_errors=True)


def classify_exception(exc):
    """Mechanism keys for failures inside clipping that have a known root cause (see known_findings.json)."""
    text = '%s: %s' % (type(exc).__name__, exc)
    if 'Connectivity variable does not contain primary dimension' in text:
        return 'mesh-clip-swapped-primary-dimension'
    if type(exc).__name__ == 'MaskError':
        return 'mesh-clip-dropped-neighbour-maskerror'
    if type(exc).__name__ == 'MergeError':
        return 'grid-clip-plain-coordinate-mergeerror'
    return None


# ------------------------------------------------------------------------------------------------------------------
# C08: values
# ------------------------------------------------------------------------------------------------------------------

def expected_variable(model, var, selection):
    """(expected array in dataset layout as float64 with NaN, maskable?) for a variable after clipping."""
    if var.kind is None:
        return var.layout(model).astype(float), None
    kind = model.kinds[var.kind]
    kept = selection[var.kind]
    maskable = var.dtype.startswith('float') or var.dtype.startswith('datetime64') or var.fill is not None
    if model.convention == 'ugrid':
        canon = var.canon[..., kept]
        src_dims = var.extra_dims + kind.dims
        order = [src_dims.index(d) for d in var.dims]
        return numpy.transpose(canon, order).astype(float), maskable
    sel = numpy.zeros(kind.size, dtype=bool)
    sel[kept] = True
    canon = numpy.where(sel, var.canon, numpy.nan) if maskable else var.canon
    arr = var.layout(model, canon).astype(float)
    ext = oracle.grid_extent(model, selection)
    index = tuple(slice(*ext[d]) if d in ext else slice(None) for d in var.dims)
    return arr[index], maskable


IGNORED_ATTRS = ('_FillValue', 'missing_value')      # decoded by xarray: they legitimately move to the encoding


def check_values(obs, model, out, selection, source, src_ds=None):
    # attributes of every variable of the input (data, coordinate and geometry variables alike) pass through
    if src_ds is not None:
        for name, variable in src_ds.variables.items():
            if name not in out.variables:
                continue
            for k, v in variable.attrs.items():
                if k in IGNORED_ATTRS:
                    continue
                got = out[name].attrs.get(k, Ellipsis)
                same = got is not Ellipsis and (numpy.array_equal(got, v) if isinstance(v, numpy.ndarray) or isinstance(got, numpy.ndarray)
                                                else got == v)
                obs.expect(bool(same), 'attributes of every variable (coordinates and geometry included) pass through unchanged',
                           lambda: {'variable': name, 'attr': k, 'got': None if got is Ellipsis else got, 'want': v,
                                    'is_coordinate': name in src_ds.coords}, mech='attrs-changed')
    for name, var in model.variables.items():
        if not obs.expect(name in out.variables, 'every variable is still present after clipping', lambda: {'var': name}, mech='variable-lost'):
            continue
        got = out[name]
        want, maskable = expected_variable(model, var, selection)
        if not obs.expect(tuple(got.dims) == var.dims, 'dimension order of a variable is unchanged by clipping',
                          lambda: {'var': name, 'got': got.dims, 'want': var.dims}, mech='dims-changed'):
            continue
        gv = numpy.asarray(got.values)
        if var.dtype.startswith('datetime64'):
            obs.cls('var:datetime64')
            if not obs.expect(gv.dtype.kind == 'M', 'a datetime variable stays a datetime variable', lambda: {'var': name, 'dtype': str(gv.dtype)}, mech='values-wrong'):
                continue
            from ..model.base import datetime_to_ids
            gv = datetime_to_ids(gv)
        if var.kind is None:
            obs.cls('var:no-grid')
            obs.expect(nan_equal(gv.astype(float), want), 'variable without spatial dimensions passes through unchanged', lambda: {'var': name}, mech='nongrid-altered')
            continue
        obs.cls('var:%s:%s' % (var.kind if model.convention != 'cf1d' else 'face', 'maskable' if maskable else 'unmaskable'))
        if maskable and var.fill is not None:
            obs.cls('var:integer-with-' + var.fill[0])
        if not maskable:
            obs.expect(gv.dtype.kind in 'iu', 'an integer variable without fill value keeps its integer type (cropped, never altered)',
                       lambda: {'var': name, 'dtype': str(gv.dtype)}, mech='unmaskable-altered')
        if gv.dtype.kind in 'iu' and var.fill is not None:
            # still raw integers (dataset opened without decoding): the declared fill value stands for "missing"
            gv = numpy.where(gv == var.fill[1], numpy.nan, gv.astype(float))
        ok = obs.expect(gv.shape == want.shape and nan_equal(gv.astype(float), want),
                        'selected cells keep every value; unselected cells inside the extent are missing; nothing from outside survives',
                        lambda: {'var': name, 'dims': var.dims, 'kind': var.kind, 'dtype': var.dtype, 'fill': var.fill,
                                 'selected': selection.get(var.kind), 'got_shape': gv.shape, 'want_shape': want.shape,
                                 'got': gv.astype(float), 'want': want}, mech='values-wrong')
        if ok and not maskable:
            obs.cls('unmaskable-cropped-unaltered')
        if var.fill is not None:
            # the result must still SAY which number stands for "missing" (as an attribute, or in the encoding once xarray
            # has decoded it): without the declaration the blanked cells read as real data
            key = var.fill[0]
            declared = out[name].attrs.get(key, out[name].encoding.get(key))
            try:
                good = declared is not None and float(numpy.asarray(declared).ravel()[0]) == float(var.fill[1])
            except (TypeError, ValueError):
                good = False
            obs.expect(good, 'the declaration of the fill value of a variable survives clipping',
                       lambda: {'var': name, 'key': key, 'want': var.fill[1], 'attrs': dict(out[name].attrs),
                                'encoding': {k: v for k, v in out[name].encoding.items() if k in ('_FillValue', 'missing_value', 'dtype')}},
                       mech='fill-declaration-lost')
        # attributes of the variable pass through
        for k, v in var.attrs.items():
            obs.expect(out[name].attrs.get(k) == v, 'variable attributes pass through unchanged', lambda: {'var': name, 'attr': k}, mech='attrs-changed')
    # coordinates and global attributes
    if model.time is not None:
        t = model.time
        obs.expect(t['name'] in out.variables and nan_equal(out[t['name']].values.astype('datetime64[ns]').astype('int64'),
                                                           t['values'].astype('int64')),
                   'time coordinate passes through unchanged', mech='coords-changed')
    for d in model.depths:
        obs.expect(d['name'] in out.variables and nan_equal(out[d['name']].values, numpy.asarray(d['values'], dtype=float)),
                   'depth coordinate passes through unchanged', lambda: {'depth': d['name']}, mech='coords-changed')
        if d['name'] in out.variables and d.get('positive') is not None:
            obs.expect(out[d['name']].attrs.get('positive') == d['positive'], 'depth coordinate attributes unchanged', mech='attrs-changed')
    for k, v in model.attrs.items():
        obs.expect(out.attrs.get(k) == v, 'global attributes pass through unchanged', lambda: {'attr': k}, mech='attrs-changed')
    for k in ('Conventions', 'ems_version', 'title'):
        pass


# ------------------------------------------------------------------------------------------------------------------
# C09: validity and geometry
# ------------------------------------------------------------------------------------------------------------------

def decode_table(da, primary_dim):
    """Independent decoder of a connectivity variable -> list of rows with None for missing (zero based)."""
    vals = numpy.asarray(da.values)
    if da.dims[0] != primary_dim:
        vals = vals.T
    start = da.attrs.get('start_index', 0)
    start = int(start)
    fill = da.attrs.get('_FillValue', da.encoding.get('_FillValue'))
    rows = []
    for r in vals:
        row = []
        for v in r:
            if isinstance(v, (float, numpy.floating)) and numpy.isnan(v):
                row.append(None)
            elif fill is not None and v == fill:
                row.append(None)
            else:
                row.append(int(v) - start)
        rows.append(row)
    return rows


def strip(rows):
    return [[v for v in r if v is not None] for r in rows]


def check_validity(obs, model, out, selection, source, work, rng):
    import emsarray
    conv = model.convention
    with quiet_warnings():
        oems = obs.call('clipped.ems', lambda: out.ems)
    if isinstance(oems, Failed):
        return
    obs.expect_equal(type(oems).__name__, model.expected_class, 'clipped dataset is recognised as the same convention', mech='class-changed')
    # save and reopen
    path = os.path.join(work, 'clipped_saved.nc')
    if os.path.exists(path):
        os.remove(path)
    with quiet_warnings():
        saved = obs.call('clipped.ems.to_netcdf', oems.to_netcdf, path)
        reopened = None
        if not isinstance(saved, Failed):
            reopened = obs.call('emsarray.open_dataset(clipped)', emsarray.open_dataset, path)
            if not isinstance(reopened, Failed):
                obs.expect_equal(type(reopened.ems).__name__, model.expected_class, 'reopened clipped file is the same convention', mech='class-changed')
    explicit = not model.derived_geometry
    polys = rpolys = None
    if explicit:
        with quiet_warnings():
            polys = obs.call('clipped polygons', lambda: oems.polygons)
            if reopened is not None and not isinstance(reopened, Failed):
                rpolys = obs.call('reopened polygons', lambda: reopened.ems.polygons)
        if isinstance(polys, Failed):
            return
    mpolys = model_polygons(model)
    face = model.kinds['face']
    kept = selection['face']
    # position of each surviving original cell in the output
    if conv == 'ugrid':
        new_pos = {old: new for new, old in enumerate(kept)}
        out_size = len(kept)
        in_extent = list(kept)
    else:
        ext = oracle.grid_extent(model, selection)
        (j0, j1), (i0, i1) = ext[face.dims[0]], ext[face.dims[1]]
        out_shape = (j1 - j0, i1 - i0)
        out_size = out_shape[0] * out_shape[1]
        in_extent = [face.linear((j, i)) for j in range(j0, j1) for i in range(i0, i1)]
        new_pos = {face.linear((j, i)): (j - j0) * out_shape[1] + (i - i0) for j in range(j0, j1) for i in range(i0, i1)}
    got_size = obs.call('clipped grid_size', lambda: oems.grid_size[oems.default_grid_kind])
    if isinstance(got_size, Failed) or not obs.expect(got_size == out_size, 'clipped dataset has one cell slot per cell of the clipped extent',
                                                      lambda: {'got': got_size, 'want': out_size}, mech='extent-wrong'):
        return
    if explicit:
        obs.cls('geometry:explicit')
        originals = [p for p in mpolys if p is not None]
        for which, arr in (('clipped', polys), ('reopened', rpolys)):
            if arr is None or isinstance(arr, Failed) or len(arr) != out_size:
                continue
            for old in kept:
                if mpolys[old] is None:
                    continue
                got = arr[new_pos[old]]
                obs.expect(got is not None and polygon_matches(got, model.cells[old], same_start=False),
                           'each selected cell keeps exactly its original polygon (%s dataset)' % which,
                           lambda: {'old': old, 'new': new_pos[old], 'got': None if got is None else got.wkt, 'want': model.cells[old]},
                           mech='polygon-changed')
            for pos, got in enumerate(arr):
                if got is None:
                    continue
                obs.expect(any(polygon_matches(got, list(o.exterior.coords)[:-1], same_start=False) for o in originals),
                           'no polygon appears that the original did not have (%s dataset)' % which,
                           lambda: {'pos': pos, 'got': got.wkt}, mech='polygon-invented')
    else:
        obs.cls('geometry:derived(class/centres/reopen only)')
        centres = obs.call('clipped face_centres', lambda: oems.face_centres)
        if not isinstance(centres, Failed):
            for old in in_extent:
                mc = model.centres[old]
                if mc is None or old not in kept:
                    continue
                gc = centres[new_pos[old]]
                obs.expect(float(gc[0]) == mc[0] and float(gc[1]) == mc[1], 'selected cell keeps its centre coordinates',
                           lambda: {'old': old, 'got': gc, 'want': mc}, mech='centre-changed')
    # ---- meshes: connectivity -------------------------------------------------------------------------------------
    if conv == 'ugrid':
        check_mesh_tables(obs, model, out, oems, selection, path if not isinstance(saved, Failed) else None)
    # ---- select_variables on the ORIGINAL dataset and on the clipped one ---------------------------------------------
    names = [n for n in model.variables]
    subset = [n for n in names if rng.random() < 0.5]
    with quiet_warnings():
        sub = obs.call('select_variables', oems.select_variables, subset)
        if isinstance(sub, Failed):
            return
        sems = obs.call('subset.ems', lambda: sub.ems)
        if isinstance(sems, Failed):
            return
        obs.expect_equal(type(sems).__name__, model.expected_class, 'subset of variables keeps the convention', mech='class-changed')
        spolys = obs.call('subset polygons', lambda: sems.polygons) if explicit else None
    if explicit and not isinstance(spolys, Failed):
        same = len(spolys) == len(polys) and all((a is None and b is None) or (a is not None and b is not None and a.equals_exact(b, 0.0))
                                                 for a, b in zip(spolys, polys))
        obs.expect(same, 'keeping only some data variables leaves every polygon identical', mech='subset-geometry-changed')
    for n in names:
        if n not in subset and model.variables[n].dtype.startswith('datetime64'):
            # a gridded datetime variable can be taken for the time coordinate (which is always kept): not asserted
            obs.cls('subset:datetime-variable-not-asserted')
            continue
        obs.expect((n in sub.data_vars) == (n in subset), 'select_variables keeps exactly the requested data variables',
                   lambda: {'var': n, 'subset': subset}, mech='subset-wrong-variables')
    for gname in model.geometry_names:
        obs.expect(gname in sub.variables, 'select_variables keeps every geometry variable', lambda: {'var': gname}, mech='subset-geometry-dropped')


def check_subset_of_original(obs, model, ems, epolys, rng):
    """Keeping only some data variables of the ORIGINAL dataset leaves every polygon identical."""
    names = list(model.variables)
    subset = [n for n in names if rng.random() < 0.5]
    if rng.random() < 0.3:
        subset = []
    with quiet_warnings():
        sub = obs.call('select_variables(original)', ems.select_variables, subset)
        if isinstance(sub, Failed):
            return
        sems = obs.call('subset.ems', lambda: sub.ems)
        if isinstance(sems, Failed):
            return
        spolys = obs.call('subset polygons', lambda: sems.polygons)
    obs.cls('select_variables:original')
    obs.expect_equal(type(sems).__name__, model.expected_class, 'subset of variables keeps the convention', mech='class-changed')
    if not isinstance(spolys, Failed):
        same = len(spolys) == len(epolys) and all((a is None and b is None) or (a is not None and b is not None and a.equals_exact(b, 0.0))
                                                  for a, b in zip(spolys, epolys))
        obs.expect(same, 'keeping only some data variables leaves every polygon identical', mech='subset-geometry-changed')
    for n in names:
        if n not in subset and model.variables[n].dtype.startswith('datetime64'):
            # a gridded datetime variable can be taken for the time coordinate (which is always kept): not asserted
            obs.cls('subset:datetime-variable-not-asserted')
            continue
        obs.expect((n in sub.data_vars) == (n in subset), 'select_variables keeps exactly the requested data variables',
                   lambda: {'var': n, 'subset': subset}, mech='subset-wrong-variables')
    for gname in model.geometry_names:
        obs.expect(gname in sub.variables, 'select_variables keeps every geometry variable', lambda: {'var': gname}, mech='subset-geometry-dropped')


def check_mesh_tables(obs, model, out, oems, selection, saved_path):
    mesh, e = model.mesh, model.encoding
    supplied = set(e['supplied'])
    rf, rn = oracle.rank_map(selection['face']), oracle.rank_map(selection['node'])
    re_ = oracle.rank_map(selection['edge']) if model.has_edges else {}
    kept_faces, kept_edges = selection['face'], selection.get('edge', [])

    def ren(mapping, seq):
        return [mapping[v] for v in seq if v in mapping]

    want = {'face_node': [ren(rn, mesh.faces[f]) for f in kept_faces]}
    if 'edge_node' in supplied:
        rows = [list(p) if not flip else [p[1], p[0]] for p, flip in zip(model.s_edges, e['edge_flip'])]
        want['edge_node'] = [ren(rn, rows[ed]) for ed in kept_edges]
    if 'face_edge' in supplied:
        want['face_edge'] = [ren(re_, model.s_face_edges[f]) for f in kept_faces]
    if 'edge_face' in supplied:
        want['edge_face'] = [ren(rf, model.s_edge_faces[ed]) for ed in kept_edges]
    if 'face_face' in supplied:
        want['face_face'] = [ren(rf, model.s_face_faces[f]) for f in kept_faces]
    primary = {'face_node': e['face_dim'], 'face_edge': e['face_dim'], 'face_face': e['face_dim'],
               'edge_node': e['edge_dim'], 'edge_face': e['edge_dim']}
    raw = netCDF4.Dataset(saved_path) if saved_path else None
    try:
        for key, rows in want.items():
            vname = TABLE_VARS[key]
            obs.cls('table:' + key)
            if not obs.expect(vname in out.variables, 'every connectivity variable of the input is present in the output',
                              lambda: {'table': key}, mech='table-lost'):
                continue
            da = out[vname]
            t = e['tables'][key]
            want_dims = (primary[key], e['max_dim'] if key.startswith('face') else e.get('two_dim', 'Two'))
            if t['transposed']:
                want_dims = want_dims[::-1]
            obs.expect(tuple(da.dims) == want_dims, 'connectivity variable keeps its dimension order',
                       lambda: {'table': key, 'got': da.dims, 'want': want_dims}, mech='table-dims-changed')
            got_start = da.attrs.get('start_index', None)
            want_start = t['start_index']
            obs.expect((got_start is None and want_start is None) or (got_start is not None and want_start is not None and str(got_start) == str(want_start)),
                       'connectivity variable keeps its index base', lambda: {'table': key, 'got': repr(got_start), 'want': repr(want_start)},
                       mech='table-start-index-changed')
            try:
                decoded = decode_table(da, primary[key])
            except Exception as exc:  # noqa: BLE001
                obs.fail('connectivity variable of the output cannot be decoded', {'table': key, 'error': repr(exc)}, mech='table-undecodable')
                continue
            obs.expect(strip(decoded) == rows,
                       'connectivity refers only to surviving elements under the new numbering (dropped neighbours missing)',
                       lambda: {'table': key, 'got': decoded[:8], 'want': rows[:8], 'kept_faces': kept_faces[:12]}, mech='table-wrong')
            if raw is not None and vname in raw.variables:
                disk_dtype = raw.variables[vname].dtype
                obs.expect(numpy.dtype(disk_dtype) == numpy.dtype(t['dtype']), 'connectivity variable keeps its integer type on disk',
                           lambda: {'table': key, 'got': str(disk_dtype), 'want': t['dtype']}, mech='table-dtype-changed')
    finally:
        if raw is not None:
            raw.close()
    # tables derived by emsarray from the OUTPUT must agree with what was supplied (consistency of the clipped mesh)
    with quiet_warnings():
        topo = obs.call('clipped topology', lambda: oems.topology)
        if isinstance(topo, Failed):
            return
        fn = obs.call('clipped face_node_array', lambda: rows_of(topo.face_node_array))
    if not isinstance(fn, Failed):
        obs.expect(fn == want['face_node'], 'normalised face-node table of the clipped mesh', lambda: {'got': fn[:6], 'want': want['face_node'][:6]}, mech='table-wrong')
        if 'face_face' in supplied and model.has_edges:
            sub_adj = []
            pair_faces = {}
            for fi, face in enumerate(fn):
                for a, b in zip(face, face[1:] + face[:1]):
                    pair_faces.setdefault(frozenset((a, b)), []).append(fi)
            for fi in range(len(fn)):
                sub_adj.append(set())
            for fs in pair_faces.values():
                if len(fs) == 2:
                    sub_adj[fs[0]].add(fs[1])
                    sub_adj[fs[1]].add(fs[0])
            obs.expect([set(r) for r in want['face_face']] == sub_adj,
                       'harness self-check: expected face-face of the clipped mesh equals adjacency derived from its face-node table',
                       mech='oracle-inconsistent')
