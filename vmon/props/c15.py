"""C15 - geometry export (GeoJSON, Shapefile, WKT, WKB) round-trips every cell with its indexes."""
import io
import json
import os
import pathlib
import shutil
import tempfile

import shapefile
import shapely

from ..common import Failed, quiet_warnings
from ..geomgen import model_polygons
from ..model import CONVENTIONS, make
from ..rng import chance, pick

ANCHORS = [
    'emsarray.operations.geometry:to_geojson',
    'emsarray.operations.geometry:_dumpable_iterator.__iter__',
    'emsarray.operations.geometry:write_geojson',
    'emsarray.operations.geometry:write_shapefile',
    'emsarray.operations.geometry:_to_multipolygon',
    'emsarray.operations.geometry:write_wkt',
    'emsarray.operations.geometry:write_wkb',
]

FORMATS = ['geojson', 'shapefile', 'wkt', 'wkb']

META = {
    'rule': ('generated datasets of all five conventions (holes as isolated cells, lines and blocks; bow-tie cells that must be '
             'dropped; CF grids with stored and with derived bounds; SHOC standard with (kind, j, i) and UGRID with (kind, n) '
             'native indexes; full-precision float64 coordinates) x write_geojson / write_shapefile / write_wkt / write_wkb; '
             'each file is read back with json / pyshp Reader / shapely.from_wkt / shapely.from_wkb (never emsarray) and compared '
             'with the abstract model: number of features = number of cells with geometry, k-th feature = k-th such cell in '
             'linear order with identical coordinates (modulo ring start and direction), recorded linear index = n, recorded '
             'native index = model.native(face, n) and ravel_index of it = n. distinct = (convention, shape, hole pattern, '
             'format); non-trivial = >= 2 cells with geometry'),
    'min': {'evaluations': 600, 'distinct': 150,
            'classes': {'export:geojson': 40, 'export:shapefile': 40, 'export:wkt': 40, 'export:wkb': 40,
                        'dataset-with-holes': 20, 'feature-after-a-hole': 200, 'native-index-with-kind': 200,
                        'native-index-two-components': 200, 'non-square': 10, 'invalid-cell-dropped': 1,
                        'dataset:cf1d': 5, 'dataset:cf2d': 5, 'dataset:shoc_simple': 5, 'dataset:shoc_standard': 5,
                        'dataset:ugrid': 5, 'first-cell-is-a-hole': 3}},
    'must_reach': ['emsarray.operations.geometry:to_geojson', 'emsarray.operations.geometry:write_geojson',
                   'emsarray.operations.geometry:write_shapefile', 'emsarray.operations.geometry:_to_multipolygon',
                   'emsarray.operations.geometry:write_wkt', 'emsarray.operations.geometry:write_wkb'],
    'assumptions': ['json, pyshp Reader, shapely.from_wkt / from_wkb read back what is in the file',
                    'ring start vertex and direction are not part of "identical coordinates" (the Shapefile format prescribes '
                    'clockwise exteriors; the model ring start is the model\'s own choice)',
                    'derived geometry (CF grids without stored bounds) compared with 1e-9 relative tolerance',
                    'the DBF format limits field names to 10 bytes: a field called linear_ind is accepted as the linear index',
                    'datasets holding degenerate derived cells (model.skip_cells) are not exported: feature alignment would be undecided'],
}


def run(ctx):
    obs = ctx.obs
    obs.extra['meta'] = META
    from ..model.grids import set_wide_longitudes
    set_wide_longitudes(True)      # also datasets in the 0..360 convention / straddling 180 degrees
    total = ctx.n(220, 45000)
    for case, rng in ctx.cases(total):
        conv = CONVENTIONS[case % len(CONVENTIONS)]
        spec = {'case': case, 'convention': conv}
        ctx.run_case(spec, one_dataset, obs, rng, conv, spec)
    # scale: one grid with more than 8192 cells in every run (block-wise writers), and in the thorough tier two with more
    # than 100 000 cells, so that the recorded indexes need six digits (dBase field widths, int casts)
    from ..rng import gen
    extras = [('cf1d', dict(ny=91, nx=92, bounds='var')),
              # a SHOC grid whose native indexes need 17 characters as JSON, e.g. ["face", 10, 100] (dBase field widths)
              ('shoc_standard', dict(nj=12, ni=104)),
              # more than 100 000 cells: recorded indexes need six digits
              ('cf1d', dict(ny=3, nx=33400, bounds='var'))]
    if ctx.thorough:
        extras += [('cf1d', dict(ny=3, nx=33407, bounds='none'))]
    for extra, (econv, kw) in enumerate(extras):
        case = total + extra
        if ctx.only_case is not None and ctx.only_case != case:
            continue
        if ctx.only_case is None and case % ctx.nshards != ctx.shard:
            continue
        spec = {'case': case, 'convention': econv, 'large': True}
        ctx.run_case(spec, one_dataset, obs, gen(ctx.seed, ctx.prop, case, 'large'), econv, spec, kw)


# ---------------------------------------------------------------------------
# coordinate comparison
# ---------------------------------------------------------------------------

def same(a, b, tol):
    if tol == 0.0:
        return a == b
    return abs(a - b) <= tol * max(1.0, abs(a), abs(b))


def rounded6(got, orig, tol):
    """Mechanism predicate of the known 6-decimals finding: got is `orig` rounded to 6 decimals.

    Stored geometry (tol == 0): got == round(orig, 6) within 1e-12.  Derived geometry: the model value is itself only
    within tol of emsarray's, so: got is a 6-decimals number within half a unit of the 6th decimal (+ tol) of orig."""
    if tol == 0.0:
        return abs(got - round(orig, 6)) <= 1e-12
    scaled = got * 1e6
    return abs(scaled - round(scaled)) <= 1e-5 and abs(got - orig) <= 0.5e-6 + tol * max(1.0, abs(orig)) + 1e-12


def align(got, want, pred):
    """Is there a rotation / direction of the open ring `got` so that pred(g, w) holds for every coordinate?"""
    n = len(want)
    if len(got) != n:
        return False
    for seq in (got, got[::-1]):
        for r in range(n):
            if all(pred(seq[(k + r) % n][0], want[k][0]) and pred(seq[(k + r) % n][1], want[k][1]) for k in range(n)):
                return True
    return False


def open_ring(coords):
    coords = [(float(p[0]), float(p[1])) for p in coords]
    if len(coords) > 1 and coords[0] == coords[-1]:
        coords = coords[:-1]
    return coords


def compare_ring(got_closed, want_ring, tol):
    """-> 'identical' | 'rounded-6dp' | 'different'   (got_closed: ring as read from the file, closed)."""
    got = open_ring(got_closed)
    want = open_ring(want_ring)
    if align(got, want, lambda g, w: same(g, w, tol)):
        return 'identical'
    if align(got, want, lambda g, w: rounded6(g, w, tol)):
        return 'rounded-6dp'
    return 'different'


# ---------------------------------------------------------------------------
# one dataset, four exports
# ---------------------------------------------------------------------------

def one_dataset(obs, rng, conv, spec, force_kw=None):
    from emsarray.operations import geometry
    kw = dict(force_kw or {})
    if force_kw:
        obs.cls('dataset:more-than-100000-cells' if force_kw.get('nx', 0) > 30000 else 'dataset:long-native-indexes' if 'ni' in force_kw else 'dataset:more-than-8192-cells')
    if conv in ('cf2d', 'shoc_simple', 'shoc_standard') and chance(rng, 0.6):
        kw['holes'] = pick(rng, ['scatter', 'line', 'block', 'mixed'])
    if conv in ('cf2d', 'shoc_simple') and chance(rng, 0.3):
        kw['bowtie'] = True
        kw['bounds'] = 'var'
        kw['nj'], kw['ni'] = int(rng.integers(3, 6)), int(rng.integers(3, 6))
    if conv == 'ugrid' and not force_kw and chance(rng, 0.3):
        # faces that list mid-side nodes: vertices exactly on the straight line between their neighbours; the exported
        # outline has those vertices too (the other half: hanging nodes that the long face does not list)
        from ..model.ugrid import hanging_mesh
        mesh, winding = hanging_mesh(rng, midside=chance(rng, 0.7))
        kw.update(mesh=mesh, winding=winding)
        obs.cls('dataset:faces-with-collinear-vertices')
    from ..model.grids import cell_scale
    scale = 1.0
    if not force_kw and chance(rng, 0.15):
        scale = float(pick(rng, [1e-3, 5e-5]))          # a 100 m / 5 m model expressed in degrees
        obs.cls('dataset:tiny-cells')
        spec['cell_scale'] = scale
    with cell_scale(scale):
        model = make(rng, conv, **kw)
    spec['model'] = model.describe()
    if model.skip_cells:
        obs.cls('dataset-with-degenerate-derived-cells-not-asserted')
        return
    ds = model.encode()
    with quiet_warnings():
        ems = obs.call('dataset.ems', lambda: ds.ems)
        if isinstance(ems, Failed):
            return
    obs.cls('dataset:' + conv)
    face = model.kinds[model.default_kind]
    mpolys = model_polygons(model)
    live = [n for n in range(face.size) if mpolys[n] is not None]      # cells with geometry, linear order
    holes = tuple(n for n in range(face.size) if mpolys[n] is None)
    if holes:
        obs.cls('dataset-with-holes')
        if holes[0] == 0:
            obs.cls('first-cell-is-a-hole')
    if model.invalid_cells:
        obs.cls('invalid-cell-dropped', len(model.invalid_cells))
    if len(face.shape) == 2 and face.shape[0] != face.shape[1]:
        obs.cls('non-square')
    tol = 1e-9 if model.derived_geometry else 0.0
    workdir = tempfile.mkdtemp(prefix='c15-')
    try:
        for fmt in FORMATS:
            obs.cls('export:' + fmt)
            if len(live) >= 2:
                obs.sig(conv, face.shape, holes, fmt)
            features = export_and_read(obs, rng, geometry, ds, fmt, workdir, spec)
            if features is None:
                continue
            check_features(obs, ems, model, live, holes, features, fmt, tol, conv)
    finally:
        shutil.rmtree(workdir, ignore_errors=True)


def export_and_read(obs, rng, geometry, ds, fmt, workdir, spec):
    """Write with emsarray, read back with an independent reader.
    -> list of dict(ring=closed coords | None, nrings, linear_index, index, problems=[...]) or None."""
    as_path = chance(rng, 0.5)

    def target(name):
        p = os.path.join(workdir, name)
        return pathlib.Path(p) if as_path else p

    with quiet_warnings():
        if fmt == 'geojson':
            path = target('geometry.geojson')
            r = obs.call('write_geojson', geometry.write_geojson, ds, path, mech='export-raised:geojson')
            if isinstance(r, Failed):
                return None
            try:
                with open(path) as f:
                    doc = json.load(f)
            except ValueError as exc:      # the independent reader cannot read the file back: that is the violation
                obs.fail('the exported GeoJSON file is not valid JSON', {'error': str(exc)[:200], 'head': open(path).read()[:200]},
                         mech='file-unreadable:geojson')
                return None
            if not obs.expect(isinstance(doc, dict) and doc.get('type') == 'FeatureCollection' and isinstance(doc.get('features'), list),
                              'GeoJSON file holds a FeatureCollection', lambda: {'head': str(doc)[:300]}, mech='geojson-structure'):
                return None
            out = []
            for feat in doc['features']:
                geom = feat.get('geometry') or {}
                props = feat.get('properties') or {}
                problems = []
                if feat.get('type') != 'Feature' or geom.get('type') != 'Polygon':
                    problems.append('not a Polygon Feature')
                rings = geom.get('coordinates') or []
                out.append({'ring': rings[0] if rings else None, 'nrings': len(rings), 'has_attrs': True,
                            'linear_index': props.get('linear_index', Ellipsis), 'index': props.get('index', Ellipsis),
                            'problems': problems})
            return out
        if fmt == 'shapefile':
            in_memory = chance(rng, 0.2)
            spec['shapefile_in_memory'] = in_memory
            if in_memory:
                shp, shx, dbf = io.BytesIO(), io.BytesIO(), io.BytesIO()
                r = obs.call('write_shapefile(shp=, shx=, dbf=)', geometry.write_shapefile, ds, shp=shp, shx=shx, dbf=dbf,
                             mech='export-raised:shapefile')
                if isinstance(r, Failed):
                    return None
                for h in (shp, shx, dbf):
                    h.seek(0)
                reader = shapefile.Reader(shp=shp, shx=shx, dbf=dbf)
            else:
                path = target(pick(rng, ['geometry', 'geometry.shp', 'cells.v2.shp']))
                r = obs.call('write_shapefile', geometry.write_shapefile, ds, path, mech='export-raised:shapefile')
                if isinstance(r, Failed):
                    return None
                reader = shapefile.Reader(str(path))
            try:
                names = [f[0] for f in reader.fields if f[0] != 'DeletionFlag']
                shapes = reader.shapes()
                records = reader.records()
            except Exception as exc:  # noqa: BLE001  (pyshp raises many types on a damaged file)
                obs.fail('the exported Shapefile can not be read back', {'error': repr(exc)[:200]}, mech='file-unreadable:shapefile')
                return None
            finally:
                reader.close()
            lin_field = next((nm for nm in names if nm in ('linear_index', 'linear_ind')), None)
            if not obs.expect(lin_field is not None and 'index' in names, 'Shapefile has linear index and native index fields',
                              lambda: {'fields': names}, mech='shapefile-fields'):
                return None
            if not obs.expect(len(shapes) == len(records), 'Shapefile has one record per shape',
                              lambda: {'shapes': len(shapes), 'records': len(records)}, mech='shapefile-record-shape-count'):
                return None
            out = []
            for shape, record in zip(shapes, records):
                problems = []
                if shape.shapeType != shapefile.POLYGON:
                    problems.append('shape type %r is not POLYGON' % shape.shapeType)
                parts = list(shape.parts)
                rec = record.as_dict()
                raw = rec.get('index')
                try:
                    index = json.loads(raw) if isinstance(raw, str) else Ellipsis
                except ValueError:
                    index = Ellipsis
                    problems.append('index field is not JSON: %r' % (raw,))
                out.append({'ring': [tuple(p) for p in shape.points] if len(parts) == 1 else None, 'nrings': len(parts), 'has_attrs': True,
                            'linear_index': rec.get(lin_field, Ellipsis), 'index': index, 'problems': problems})
            return out
        # WKT / WKB: one MultiPolygon
        if fmt == 'wkt':
            path = target('geometry.wkt')
            r = obs.call('write_wkt', geometry.write_wkt, ds, path, mech='export-raised:wkt')
            if isinstance(r, Failed):
                return None
            try:
                with open(path) as f:
                    geom = shapely.from_wkt(f.read())
            except Exception as exc:  # noqa: BLE001  (GEOS ParseException)
                obs.fail('the exported WKT file can not be parsed', {'error': str(exc)[:200]}, mech='file-unreadable:wkt')
                return None
        else:
            path = target('geometry.wkb')
            r = obs.call('write_wkb', geometry.write_wkb, ds, path, mech='export-raised:wkb')
            if isinstance(r, Failed):
                return None
            try:
                with open(path, 'rb') as f:
                    geom = shapely.from_wkb(f.read())
            except Exception as exc:  # noqa: BLE001
                obs.fail('the exported WKB file can not be parsed', {'error': str(exc)[:200]}, mech='file-unreadable:wkb')
                return None
        if not obs.expect(geom is not None and geom.geom_type == 'MultiPolygon', 'WKT / WKB file holds one MultiPolygon',
                          lambda: {'type': getattr(geom, 'geom_type', None)}, mech='wk-structure'):
            return None
        return [{'ring': list(p.exterior.coords), 'nrings': 1 + len(p.interiors), 'has_attrs': False, 'problems': []} for p in geom.geoms]


def check_features(obs, ems, model, live, holes, features, fmt, tol, conv):
    kind = model.default_kind
    obs.evaluation()
    if not obs.expect(len(features) == len(live), 'number of features = number of cells with geometry',
                      lambda: {'format': fmt, 'features': len(features), 'cells with geometry': len(live), 'holes': holes[:10],
                               'invalid': model.invalid_cells},
                      mech='feature-count:' + fmt):
        return
    rounded = []
    lost = []
    for k, (n, feat) in enumerate(zip(live, features)):
        obs.evaluation()
        after_hole = n != k
        if after_hole:
            obs.cls('feature-after-a-hole')
        native = model.native(kind, n)

        def ctx(**kw):
            d = {'format': fmt, 'feature': k, 'n': n, 'native': native, 'want ring': model.cells[n], 'got ring': feat['ring']}
            d.update(kw)
            return d

        obs.expect(not feat['problems'], 'feature is a polygon feature', lambda: ctx(problems=feat['problems']), mech='feature-structure:' + fmt)
        # ---- coordinates ------------------------------------------------------------------------------------
        if obs.expect(feat['ring'] is not None and feat['nrings'] == 1, 'feature has exactly one ring', lambda: ctx(nrings=feat['nrings']),
                      mech='feature-structure:' + fmt):
            verdict = compare_ring(feat['ring'], model.cells[n], tol)
            if verdict == 'rounded-6dp' and fmt in ('geojson', 'wkt'):
                rounded.append((k, n, feat['ring']))
            else:
                obs.expect(verdict == 'identical', 'k-th feature has the coordinates of the k-th cell with geometry', lambda: ctx(verdict=verdict),
                           mech='coordinates-differ:' + fmt)
        # ---- attributes -------------------------------------------------------------------------------------
        if not feat['has_attrs']:
            continue
        got_n = feat['linear_index']
        if fmt == 'shapefile' and got_n is None:
            lost.append(k)          # mechanism predicate of the pyshp keyword-record defect: the value is absent, not wrong
        else:
            obs.expect(isinstance(got_n, int) and not isinstance(got_n, bool) and got_n == n, 'feature records the linear index of its cell',
                       lambda: ctx(got=got_n), mech='linear-index-wrong:' + fmt)
        got_native = feat['index']
        want_native = list(native)
        if len(want_native) >= 2:
            obs.cls('native-index-two-components')
        if isinstance(want_native[0], str):
            obs.cls('native-index-with-kind')
        if obs.expect(got_native == want_native, 'feature records the native index of its cell',
                      lambda: ctx(got=got_native, want=want_native), mech='native-index-wrong:' + fmt):
            # decode: JSON list -> the tuple emsarray uses (kind string -> enum member)
            if isinstance(got_native[0], str):
                decoded = (model.kind_token(got_native[0]),) + tuple(got_native[1:])
            else:
                decoded = tuple(got_native)
            back = obs.call('ravel_index(recorded native index)', ems.ravel_index, decoded)
            if not isinstance(back, Failed):
                obs.expect(int(back) == n, 'the recorded native index ravels to the recorded linear index', lambda: ctx(back=back),
                           mech='native-index-wrong:' + fmt)
    if lost:
        obs.fail('Shapefile records lose the linear index (value None in the linear_ind field)',
                 {'format': fmt, 'records without linear index': len(lost), 'records': len(features), 'first': lost[:5]},
                 mech='shapefile-linear-index-lost')
    if rounded:
        k, n, ring = rounded[0]
        obs.fail('%s coordinates are rounded to 6 decimals' % fmt,
                 {'format': fmt, 'features rounded': len(rounded), 'features': len(features), 'feature': k, 'n': n,
                  'got ring': ring, 'want ring': model.cells[n]}, mech='text-format-6dp-rounding')
    if len(obs.samples) < 4 and features and len(live) >= 2 and holes and not any(s.get('format') == fmt for s in obs.samples):
        k = len(live) - 1
        obs.sample({'convention': conv, 'format': fmt, 'grid shape': model.kinds[kind].shape, 'cells without geometry': list(holes)[:8],
                    'features': len(features), 'last feature': k, 'its cell n': live[k], 'native index (model)': model.native(kind, live[k]),
                    'recorded linear index': features[k].get('linear_index', 'n/a'), 'recorded native index': features[k].get('index', 'n/a'),
                    'ring read back': features[k]['ring'], 'model ring': model.cells[live[k]]})
