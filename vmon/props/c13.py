"""C13 - depth normalisation reorients coordinates, bounds and data together, idempotently, without touching its input."""
import numpy
import xarray

from ..common import Failed, quiet_warnings
from ..model import make
from ..oracles import depthgen
from ..rng import chance, pick

ANCHORS = [
    'emsarray.operations.depth:normalize_depth_variables',
    'emsarray.conventions._base:Convention.normalize_depth_variables',
    'emsarray.conventions._base:Convention.depth_coordinates',
    'emsarray.conventions.shoc:ShocStandard.depth_coordinates',
    'emsarray.conventions.shoc:ShocSimple.depth_coordinates',
    'emsarray.utils:name_to_data_array',
]

CASE_MECH = 'positive-attr-case-sensitive'
COMBOS = [(a, b) for a in (None, True, False) for b in (None, True, False)]
EMS_CONVS = ['cf1d', 'shoc_simple', 'shoc_standard', 'ugrid', 'cf2d']
TAG0 = 100

META = {
    'rule': ('two streams. plain: xarray datasets with 1-3 depth coordinates (2-8 strictly monotonic levels, positive up/down '
             'spelled up/down/Up/UP/Down/DOWN or absent, values all one sign / starting at 0 / crossing 0 when the attribute is '
             'present, float64/float32/int64, dimension coordinate / non-index coordinate / plain variable, bounds absent / data '
             'variable / coordinate, sometimes two coordinates on one dimension), id-carrying data variables with one or two depth '
             'dimensions at every position, per-dimension layer tags, variables without depth. ems: generated CF 1-D/2-D, SHOC '
             'simple/standard and UGRID datasets with recognised depth coordinates, called through dataset.ems. Every dataset is '
             'normalised with all nine (positive_down, deep_to_shallow) in {None, True, False}^2, once and twice, coordinates given '
             'by name or DataArray (sometimes only a subset). Oracle: physical depth of original layer L = sign(attribute) x value, '
             'from the generator; the layer tag tells which original layer sits at each output position. distinct = (stream, '
             'convention, axis descriptions, option pair); non-trivial = every case (>= 2 levels)'),
    'min': {'evaluations': 8000, 'distinct': 3000,
            'classes': {'combo:None/None': 400, 'combo:None/True': 400, 'combo:None/False': 400, 'combo:True/None': 400,
                        'combo:True/True': 400, 'combo:True/False': 400, 'combo:False/None': 400, 'combo:False/True': 400,
                        'combo:False/False': 400, 'applied-twice': 3500, 'route:ems': 500, 'route:direct': 2500,
                        'sign-flip-demanded': 1200, 'order-flip-demanded': 1200, 'data-variable-reordered-with-coordinate': 3000,
                        'attr:up': 120, 'attr:down': 120, 'attr:other-case-up': 80, 'attr:other-case-down': 80, 'attr:absent': 70,
                        'bounds:var': 180, 'bounds:coord': 70, 'bounds:none': 250,
                        'coordinate:dimension': 150, 'coordinate:non-index': 200, 'coordinate:plain-variable': 100,
                        'axes:2+': 1500, 'two-coordinates-on-one-dimension': 200, 'levels:2': 70, 'levels:7-8': 120,
                        'values:mixed': 80, 'values:zero': 70, 'dtype:int64': 50, 'dtype:float32': 60,
                        'subset-of-coordinates': 250, 'variable-with-two-depth-dims': 500, 'input-purity-checked': 3500}},
    'must_reach': ['emsarray.operations.depth:normalize_depth_variables',
                   'emsarray.conventions._base:Convention.normalize_depth_variables'],
    'assumptions': ['CF reading of the positive attribute is case-insensitive (emsarray\'s own depth_coordinates lower-cases it)',
                    'coordinates without a positive attribute avoid 0 and mixed signs, so the documented majority-sign guess is unambiguous',
                    'two coordinates on one dimension are oriented consistently (otherwise no ordering could satisfy both)',
                    'negation of a float is exact: all comparisons are exact',
                    'not asserted (property silent): the guess warning, coordinate vs data-variable status of the outputs, '
                    'variable order, column order inside a bounds row'],
}


def run(ctx):
    obs = ctx.obs
    obs.extra['meta'] = META
    for case, rng in ctx.cases(ctx.n(700, 90000), stream='plain'):
        spec = {'case': case, 'stream': 'plain'}
        ctx.run_case(spec, plain_case, obs, rng, spec)
    for case, rng in ctx.cases(ctx.n(160, 18000), stream='ems'):
        conv = EMS_CONVS[case % len(EMS_CONVS)]
        spec = {'case': case, 'stream': 'ems', 'convention': conv}
        ctx.run_case(spec, ems_case, obs, rng, conv, spec)


# ---------------------------------------------------------------------------
# generators
# ---------------------------------------------------------------------------

PLAIN_NAMES = [('depth', 'depth'), ('zc', 'k'), ('z_grid', 'k_grid'), ('lev', 'lev'), ('layer_z', 'nz'), ('sigma', 's_rho'),
               ('k_centre', 'k_centre'), ('height', 'hdim')]


def plain_dataset(rng):
    naxes = pick(rng, [1, 1, 2, 2, 3])
    idx = rng.permutation(len(PLAIN_NAMES))[:naxes]
    axes = []
    for i in idx:
        name, dim = PLAIN_NAMES[int(i)]
        attr = None if chance(rng, 0.15) else 'auto'
        dtype = pick(rng, ['float64', 'float64', 'float64', 'float64', 'float32', 'int64'])
        axis = depthgen.make_axis(rng, name, dim, nk=int(rng.integers(2, 9)), attr=attr, bounds_p=0.5, dtype=dtype)
        if name != dim:
            axis['style'] = pick(rng, ['coord', 'coord', 'var'])
        if chance(rng, 0.4):
            axis['encoding'] = {'dtype': numpy.dtype('float32'), '_FillValue': numpy.float32(1e20)}
        axes.append(axis)
    if chance(rng, 0.12):
        # a second coordinate on the dimension of the first one (e.g. layer centre and layer thickness-weighted centre)
        first = axes[0]
        twin = depthgen.make_axis(rng, first['name'] + '_alt', first['dim'], nk=first['nk'], deep_first=first['deep_first'],
                                  attr=None if chance(rng, 0.15) else 'auto', bounds_p=0.3)
        twin['style'] = pick(rng, ['coord', 'var'])
        twin['shares_dim'] = True
        axes.append(twin)
    depth_dims = []
    for a in axes:
        if a['dim'] not in depth_dims:
            depth_dims.append(a['dim'])
    sizes = {a['dim']: a['nk'] for a in axes}
    sizes.update({'x': int(rng.integers(1, 4)), 't': int(rng.integers(1, 3))})
    next_id = [1000.0]

    def ids(shape):
        n = int(numpy.prod(shape))
        out = next_id[0] + numpy.arange(n, dtype=float)
        next_id[0] += n + 5
        return out.reshape(shape)

    data_vars = {}
    nvars = int(rng.integers(2, 5))
    for v in range(nvars):
        nd = 2 if (len(depth_dims) > 1 and chance(rng, 0.3)) else 1
        ddims = [depth_dims[int(i)] for i in rng.permutation(len(depth_dims))[:nd]]
        if v == 0:
            ddims = [depth_dims[0]]
        dims = ddims + [d for d in ('x', 't') if chance(rng, 0.6)]
        dims = [dims[int(i)] for i in rng.permutation(len(dims))]
        vals = ids(tuple(sizes[d] for d in dims))
        dtype = pick(rng, ['float64', 'float64', 'float32', 'int32'])
        if dtype.startswith('float') and chance(rng, 0.5):
            vals = numpy.where(rng.random(vals.shape) < 0.2, numpy.nan, vals)
        data_vars['v%d' % v] = xarray.DataArray(vals.astype(dtype), dims=dims, attrs={'long_name': 'variable %d' % v})
    for d in depth_dims:   # make sure every depth dimension carries data
        if not any(d in da.dims for da in data_vars.values()):
            dims = [d, 'x'] if chance(rng, 0.5) else ['x', d]
            data_vars['w_' + d] = xarray.DataArray(ids(tuple(sizes[x] for x in dims)), dims=dims)
    data_vars['flat'] = xarray.DataArray(ids((sizes['x'],)), dims=['x'], attrs={'positive': 'sideways'})
    ds = xarray.Dataset(data_vars)
    if chance(rng, 0.5):
        ds = ds.assign_coords(x=('x', numpy.arange(sizes['x']) * 2.5))
    for a in axes:
        attrs = dict(a['attrs'])
        if a['attr'] is not None:
            attrs['positive'] = a['attr']
        if a['bounds'] is not None:
            attrs['bounds'] = a['name'] + '_bounds'
            ds[a['name'] + '_bounds'] = xarray.DataArray(a['bounds'], dims=[a['dim'], 'bnd2'], attrs={'comment': 'layer interfaces'})
            if a['bounds_style'] == 'coord':
                ds = ds.set_coords(a['name'] + '_bounds')
        da = xarray.DataArray(a['values'], dims=[a['dim']], attrs=attrs)
        if a.get('encoding'):
            da.encoding.update(a['encoding'])
        if a['style'] == 'var':
            ds[a['name']] = da
        else:
            ds = ds.assign_coords({a['name']: da})
    ds.attrs['title'] = 'generated depth dataset'
    return ds, axes


def add_tags(ds, axes):
    """One integer variable per depth dimension naming the ORIGINAL layer index: tells where each layer went."""
    for d in sorted({a['dim'] for a in axes}):
        n = ds.sizes[d]
        ds['tag_' + d] = xarray.DataArray(numpy.arange(n, dtype='int64') + TAG0, dims=[d], attrs={'long_name': 'original layer'})
    return ds


# ---------------------------------------------------------------------------
# cases
# ---------------------------------------------------------------------------

def plain_case(obs, rng, spec):
    ds, axes = plain_dataset(rng)
    ds = add_tags(ds, axes)
    spec['axes'] = [depthgen.axis_summary(a) for a in axes]
    spec['variables'] = {str(n): list(v.dims) for n, v in ds.data_vars.items()}
    from emsarray.operations import depth
    subset = None
    dims = [a['dim'] for a in axes]
    if len(axes) >= 2 and len(set(dims)) == len(dims) and chance(rng, 0.25):
        subset = sorted(int(i) for i in rng.permutation(len(axes))[:int(rng.integers(1, len(axes)))])
    chosen = axes if subset is None else [axes[i] for i in subset]
    as_arrays = chance(rng, 0.4)
    one_shot = chance(rng, 0.3)
    if one_shot:
        obs.cls('depth-coordinates-as-one-shot-iterable')

    def call(dataset, a, b):
        coords = [dataset[x['name']] if as_arrays else x['name'] for x in chosen]
        if one_shot:
            coords = iter(coords)         # an Iterable that can be consumed only once
        kw = {}
        if a is not None or not omit_unset:
            kw['positive_down'] = a
        if b is not None or not omit_unset:
            kw['deep_to_shallow'] = b    # an option left unset may also simply not be passed
        return depth.normalize_depth_variables(dataset, coords, **kw)
    omit_unset = chance(rng, 0.5)
    if omit_unset:
        obs.cls('unset-options-not-passed')

    drive(obs, rng, spec, ds, axes, chosen, call, 'direct', 'plain')


def ems_case(obs, rng, conv, spec):
    kw = {'cf1d': dict(maxn=3), 'cf2d': dict(maxn=3, bowtie=False), 'shoc_simple': dict(maxn=3, bowtie=False),
          'shoc_standard': dict(maxn=3), 'ugrid': dict(maxn=2)}[conv]
    model = make(rng, conv, **kw)
    depthgen.dress(model, rng, conv, recognisable=True, same_dim=0.3, bounds_p=0.4, per_group=(1, 1), plain=(0, 1),
                   kinds=[model.default_kind] + [k for k in model.kinds if k != model.default_kind][:1], max_levels=8)
    axes = model.depth_info['axes']
    ds = add_tags(depthgen.encode(model), axes)
    spec['axes'] = [depthgen.axis_summary(a) for a in axes]
    spec['variables'] = {n: list(v.dims) for n, v in model.variables.items()}
    with quiet_warnings():
        ems = obs.call('dataset.ems', lambda: ds.ems)
        if isinstance(ems, Failed):
            return
        detected = obs.call('depth_coordinates', lambda: sorted(str(c.name) for c in ems.depth_coordinates))
    if isinstance(detected, Failed):
        return
    # every generated axis carries the attributes the convention documents for depth coordinates (positive / axis Z /
    # standard_name depth, or the SHOC names): "every depth coordinate" of dataset.ems.normalize_depth_variables() is
    # exactly this set - a coordinate that is left out is never normalised
    if not obs.expect(detected == sorted(a['name'] for a in axes), 'dataset.ems.depth_coordinates are exactly the depth coordinates of the dataset',
                      lambda: {'detected': detected, 'depth coordinates': sorted(a['name'] for a in axes),
                               'dims': {a['name']: a['dim'] for a in axes}}, mech='depth-coordinates-detection'):
        return
    obs.cls('ems-depth-coordinates-as-generated')
    from emsarray.operations import depth

    omit_unset = chance(rng, 0.5)

    def call_ems(dataset, a, b):
        kw = {}
        if a is not None or not omit_unset:
            kw['positive_down'] = a
        if b is not None or not omit_unset:
            kw['deep_to_shallow'] = b
        return dataset.ems.normalize_depth_variables(**kw)

    def call_direct(dataset, a, b):
        return depth.normalize_depth_variables(dataset, [x['name'] for x in axes], positive_down=a, deep_to_shallow=b)

    drive(obs, rng, spec, ds, axes, axes, call_ems, 'ems', conv)
    if chance(rng, 0.3):
        drive(obs, rng, spec, ds, axes, axes, call_direct, 'direct', conv)


def drive(obs, rng, spec, ds, axes, chosen, call, route, family):
    snap = depthgen.snapshot(ds)
    classify_input(obs, axes, chosen, ds)
    sampled = False
    for a, b in COMBOS:
        obs.cls('combo:%s/%s' % (a, b))
        obs.cls('route:' + route)
        with quiet_warnings() as log:
            out = obs.call('normalize_depth_variables(%s, %s) [%s]' % (a, b, route), call, ds, a, b)
        # ---- the input dataset is not modified (checked after every call, so the culprit is known) -----------
        diffs = depthgen.dataset_diff(snap, ds, encoding=True, order=True)
        obs.cls('input-purity-checked')
        obs.expect(not diffs, 'normalize_depth_variables modified its input dataset',
                   lambda: {'options': [a, b], 'route': route, 'differences': diffs[:6]}, mech='input-mutated')
        if isinstance(out, Failed):
            continue
        guessed = [str(w.message) for w in log if 'positive' in str(w.message)]
        if any(x['attr'] is None for x in chosen):
            obs.cls('absent-attribute:warned' if guessed else 'absent-attribute:silent-not-asserted')
        obs.sig(route, family, a, b, tuple(axis_key(x) for x in axes), tuple(x['name'] for x in chosen))
        good = check_once(obs, snap, axes, chosen, out, a, b, route)
        # ---- normalising an already normalised dataset changes nothing ----------------------------------------------
        snap_out = depthgen.snapshot(out)
        with quiet_warnings():
            again = obs.call('normalize_depth_variables(%s, %s) twice [%s]' % (a, b, route), call, out, a, b)
        if isinstance(again, Failed):
            continue
        obs.cls('applied-twice')
        d2 = depthgen.dataset_diff(snap_out, again, encoding=True)
        # known mis-reading of a case-variant "down": when such a coordinate shares its dimension with another depth coordinate
        # the two are normalised inconsistently and the dimension is reversed again by every further call
        shared = any(depthgen.case_variant_down(x['attr']) and any(y is not x and y['dim'] == x['dim'] for y in chosen) for x in chosen)
        obs.expect(not d2, 'f(f(x)) differs from f(x)',
                   lambda: {'options': [a, b], 'route': route, 'differences': d2[:6]}, mech=CASE_MECH if shared else 'not-idempotent')
        d3 = depthgen.dataset_diff(snap_out, out, encoding=True, order=True)
        obs.expect(not d3, 'normalize_depth_variables modified its (already normalised) input dataset',
                   lambda: {'options': [a, b], 'route': route, 'differences': d3[:6]}, mech='input-mutated')
        both = [x for x in chosen if a is not None and b is not None and x['down'] != a and x['deep_first'] != b]
        if good and not sampled and len(obs.samples) < 4 and both:
            sampled = True
            x = ([c for c in both if c['bounds'] is not None] or both)[0]
            bname = x['name'] + '_bounds'
            obs.sample({'route': route, 'family': family, 'options': {'positive_down': a, 'deep_to_shallow': b},
                        'coordinate': depthgen.axis_summary(x),
                        'output positive': out[x['name']].attrs.get('positive'), 'output values': out[x['name']].values,
                        'output layer tags (original index + %d)' % TAG0: out['tag_' + x['dim']].values,
                        'input bounds': None if x['bounds'] is None else x['bounds'][:3],
                        'output bounds': None if x['bounds'] is None else out[bname].values[:3]})


def axis_key(x):
    return (x['name'], x['dim'], x['nk'], x['down'], x['deep_first'], x['attr'], x['bounds_style'], x['style'], x['dtype'], x['offset'])


def flips(chosen, a, b):
    sign = a is not None and any(x['down'] != a for x in chosen)
    order = b is not None and any(x['deep_first'] != b for x in chosen)
    return sign, order


def classify_input(obs, axes, chosen, ds):
    if len(axes) >= 2:
        obs.cls('axes:2+', 9)
    if len(chosen) < len(axes):
        obs.cls('subset-of-coordinates', 9)
    if len({x['dim'] for x in axes}) < len(axes):
        obs.cls('two-coordinates-on-one-dimension', 9)
    ddims = {x['dim'] for x in axes}
    if any(len(ddims & set(v.dims)) >= 2 for v in ds.data_vars.values()):
        obs.cls('variable-with-two-depth-dims', 9)
    for x in chosen:
        at = x['attr']
        obs.cls('attr:absent' if at is None else 'attr:' + at if at in ('up', 'down') else 'attr:other-case-' + at.lower())
        obs.cls('bounds:' + (x['bounds_style'] or 'none'))
        obs.cls('coordinate:dimension' if x['name'] == x['dim'] else
                'coordinate:plain-variable' if x['style'] == 'var' else 'coordinate:non-index')
        if x['nk'] == 2:
            obs.cls('levels:2')
        if x['nk'] >= 7:
            obs.cls('levels:7-8')
        obs.cls('values:' + x['offset'])
        obs.cls('dtype:' + x['dtype'])


# ---------------------------------------------------------------------------
# the clauses of the property, one by one
# ---------------------------------------------------------------------------

def read_sign(attr, truth_down):
    """+1 when stored values are depths below the surface, -1 when they are heights; CF reads the attribute case-insensitively;
    an absent attribute means the documented guess, which is unambiguous (= the generator's truth) on these inputs."""
    if attr is None:
        return 1.0 if truth_down else -1.0
    return 1.0 if str(attr).lower() == 'down' else -1.0


def check_once(obs, snap, axes, chosen, out, a, b, route):
    good = True
    sign_demanded, order_demanded = flips(chosen, a, b)
    if sign_demanded:
        obs.cls('sign-flip-demanded')
    if order_demanded:
        obs.cls('order-flip-demanded')
    opts = {'positive_down': a, 'deep_to_shallow': b, 'route': route}
    chosen_dims = {x['dim'] for x in chosen}
    # ---- where did each original layer go?  (read from the integer tags, one per depth dimension) ---------------------
    perm = {}
    for d in sorted({x['dim'] for x in axes}):
        name = 'tag_' + d
        n = snap['sizes'][d]
        if not obs.expect(name in out.variables and tuple(out[name].dims) == (d,) and out.sizes.get(d) == n,
                          'auxiliary variable on the depth dimension lost or reshaped', lambda: {'dim': d, **opts}, mech='data-detached'):
            return False
        p = [int(v) - TAG0 for v in out[name].values]
        if not obs.expect(sorted(p) == list(range(n)), 'layers duplicated or lost along the depth dimension',
                          lambda: {'dim': d, 'tags': p, **opts}, mech='data-detached'):
            return False
        perm[d] = p
    # ---- every variable moved with the layers (data values stay attached to their layer) -------------------------------------
    roles = {}
    for x in axes:
        roles[x['name']] = ('coordinate', x)
        if x['bounds'] is not None:
            roles[x['name'] + '_bounds'] = ('bounds', x)
    for name, sv in snap['vars'].items():
        if not obs.expect(name in out.variables, 'variable lost by normalize_depth_variables', lambda: {'variable': name, **opts},
                          mech='variable-lost'):
            good = False
            continue
        got = out.variables[name]
        want = sv['values']
        for axis_no, d in enumerate(sv['dims']):
            if d in perm:
                want = numpy.take(want, perm[d], axis=axis_no)
        role = roles.get(name, ('data', None))[0]
        if (name in out.coords) != (name in snap['coords']):
            obs.cls('coordinate-status-changed-not-asserted')
        if role == 'data':
            touched = [d for d in sv['dims'] if d in perm]
            moved = [d for d in touched if perm[d] != list(range(len(perm[d])))]
            ok = obs.expect(tuple(got.dims) == sv['dims'] and depthgen.values_identical(got.values, want),
                            'data values are no longer attached to the layer they belonged to' if touched else
                            'variable without depth dimension changed',
                            lambda: {'variable': name, 'dims': sv['dims'], 'layer order': perm, 'got': got.values, 'want': want, **opts},
                            mech='data-detached' if touched else 'other-variable-changed')
            ok = obs.expect(depthgen.meta_equal(dict(got.attrs), sv['attrs']), 'attributes of a data variable changed',
                            lambda: {'variable': name, 'got': dict(got.attrs), 'want': sv['attrs'], **opts}, mech='other-variable-changed') and ok
            good = good and ok
            if moved and ok:
                obs.cls('data-variable-reordered-with-coordinate')
    # ---- per coordinate -----------------------------------------------------------------------------------------------------------
    for x in axes:
        name, d = x['name'], x['dim']
        sv = snap['vars'][name]
        if name not in out.variables:
            continue
        got = out.variables[name]
        p = perm[d]
        identity = p == list(range(len(p)))
        is_chosen = any(x is c for c in chosen)
        in_attr = sv['attrs'].get('positive')
        out_attr = got.attrs.get('positive')
        # a coordinate on this dimension with a case-variant "down" spelling is the known mis-reading: separable mechanism
        known = any(depthgen.case_variant_down(c['attr']) for c in chosen if c['dim'] == d)

        def mech(key):
            return CASE_MECH if known else key
        if not obs.expect(tuple(got.dims) == (d,) and got.shape == sv['values'].shape, 'depth coordinate reshaped',
                          lambda: {'coordinate': name, **opts}, mech='coordinate-reshaped'):
            good = False
            continue
        in_vals = sv['values'].astype(float)
        out_vals = numpy.asarray(got.values).astype(float)
        if not is_chosen:
            # not passed to the function: nothing about it may change, except that it rides along a shared dimension
            ok = obs.expect(depthgen.values_identical(got.values, sv['values'][p]) and depthgen.meta_equal(dict(got.attrs), sv['attrs']),
                            'a depth coordinate that was not passed in was altered',
                            lambda: {'coordinate': name, 'got': got.values, 'was': sv['values'], **opts}, mech='unrequested-coordinate-changed')
            if d not in chosen_dims:
                ok = obs.expect(identity, 'a depth dimension that was not passed in was reordered',
                                lambda: {'dim': d, 'layer order': p, **opts}, mech='unrequested-coordinate-changed') and ok
            good = good and ok
            continue
        # (1) attribute: equals the request, or is untouched when the option is unset
        if a is not None:
            ok = obs.expect(out_attr == ('down' if a else 'up'), 'positive attribute does not state the requested convention',
                            lambda: {'coordinate': name, 'got': out_attr, 'requested_down': a, **opts}, mech='attribute-not-as-requested')
        else:
            ok = obs.expect(('positive' in got.attrs) == ('positive' in sv['attrs']) and out_attr == in_attr,
                            'positive attribute changed although positive_down was left unset',
                            lambda: {'coordinate': name, 'got': out_attr, 'was': in_attr, **opts}, mech='unset-option-changed-something')
        good = good and ok
        rest_out = {k: v for k, v in got.attrs.items() if k != 'positive'}
        rest_in = {k: v for k, v in sv['attrs'].items() if k != 'positive'}
        good = obs.expect(depthgen.meta_equal(rest_out, rest_in), 'other attributes of the depth coordinate changed (bounds link, units, ...)',
                          lambda: {'coordinate': name, 'got': rest_out, 'want': rest_in, **opts}, mech='coordinate-attrs-changed') and good
        # (2) attribute and values agree: the physical depth read through the OUTPUT attribute at the position where
        #     layer L now sits equals L's original physical depth
        s_in = read_sign(in_attr, x['down'])
        s_out = read_sign(out_attr, x['down']) if out_attr is not None else s_in
        phys_in = s_in * in_vals
        phys_out = s_out * out_vals
        ok = obs.expect(bool(numpy.array_equal(phys_out, phys_in[p])),
                        'data are no longer attached to the same physical depth (sign convention and values disagree)',
                        lambda: {'coordinate': name, 'input positive': in_attr, 'input values': in_vals, 'output positive': out_attr,
                                 'output values': out_vals, 'layer order': p, **opts}, mech=mech('physical-depth-changed'))
        good = good and ok
        # (3) unset positive_down: values bit-identical apart from travelling with their layer
        if a is None:
            good = obs.expect(depthgen.values_identical(got.values, sv['values'][p]),
                              'coordinate values changed although positive_down was left unset',
                              lambda: {'coordinate': name, 'got': got.values, 'was': sv['values'], 'layer order': p, **opts},
                              mech=mech('unset-option-changed-something')) and good
        # (4) ordering as requested, read from the output alone; unset: order untouched
        if b is None:
            good = obs.expect(identity, 'layers reordered although deep_to_shallow was left unset',
                              lambda: {'coordinate': name, 'layer order': p, **opts}, mech=mech('unset-option-changed-something')) and good
        else:
            steps = numpy.diff(phys_out)
            ordered = bool((steps < 0).all()) if b else bool((steps > 0).all())
            good = obs.expect(ordered, 'layers are not in the requested order (read through the output attribute)',
                              lambda: {'coordinate': name, 'output positive': out_attr, 'output values': out_vals,
                                       'deep_to_shallow': b, **opts}, mech=mech('order-not-as-requested')) and good
        # (5) bounds: each row travels with its layer and flips sign with it
        if x['bounds'] is not None:
            bname = name + '_bounds'
            bsv = snap['vars'][bname]
            if obs.expect(bname in out.variables and tuple(out.variables[bname].dims) == bsv['dims'],
                          'bounds variable lost or reshaped', lambda: {'bounds': bname, **opts}, mech='bounds-lost'):
                gb = numpy.asarray(out.variables[bname].values, dtype=float)
                want_b = (s_in * s_out) * bsv['values'].astype(float)[p]
                same = bool(numpy.array_equal(gb, want_b)) or bool(numpy.array_equal(gb, want_b[:, ::-1]))
                good = obs.expect(same, 'bounds were not transformed together with their coordinate',
                                  lambda: {'coordinate': name, 'input positive': in_attr, 'output positive': out_attr, 'layer order': p,
                                           'input bounds': bsv['values'], 'output bounds': gb, **opts}, mech=mech('bounds-not-transformed')) and good
                good = obs.expect(depthgen.meta_equal(dict(out.variables[bname].attrs), bsv['attrs']), 'attributes of the bounds variable changed',
                                  lambda: {'bounds': bname, **opts}, mech='bounds-attrs-changed') and good
            else:
                good = False
    # ---- both options unset: nothing at all may differ ------------------------------------------------------------------------------
    if a is None and b is None:
        d0 = depthgen.dataset_diff(snap, out, encoding=True)
        good = obs.expect(not d0, 'dataset changed although both options were left unset',
                          lambda: {'differences': d0[:6], **opts}, mech='unset-option-changed-something') and good
    # global attributes and dimension sizes are never part of the transformation
    good = obs.expect(dict(out.sizes) == snap['sizes'], 'dimension sizes changed', lambda: {'got': dict(out.sizes), 'want': snap['sizes'], **opts},
                      mech='other-variable-changed') and good
    return good
