"""C02 - one linear order is shared by polygons, centres, flattened data and selectors."""
import math

import numpy
from shapely.geometry import Point, Polygon

from .. import contracts
from ..common import Failed, nan_equal, quiet_warnings
from ..geomgen import model_polygons, polygon_matches
from ..model import CONVENTIONS, make_dressed
from ..model.ugrid import is_convex

ANCHORS = [
    'emsarray.conventions.grid:CFGrid1D._make_polygons',
    'emsarray.conventions.grid:CFGrid2D._make_polygons',
    'emsarray.conventions.arakawa_c:ArakawaC._make_polygons',
    'emsarray.conventions.ugrid:UGrid._make_polygons',
    'emsarray.utils:make_polygons_with_holes',
    'emsarray.conventions._base:Convention.strtree',
    'emsarray.conventions._base:Convention.polygons',
    'emsarray.conventions._base:Convention.mask',
    'emsarray.conventions._base:Convention.face_centres',
    'emsarray.conventions._base:DimensionConvention.ravel',
    'emsarray.conventions._base:DimensionConvention.selector_for_indexes',
    'emsarray.conventions._base:Convention.select_index',
    'emsarray.conventions.grid:CFGrid1D.face_centres',
    'emsarray.conventions.grid:CFGrid2D.face_centres',
    'emsarray.conventions.arakawa_c:ArakawaC.face_centres',
    'emsarray.conventions.ugrid:UGrid.face_centres',
]

META = {
    'rule': ('generated datasets of all conventions with holes (isolated, lines, blocks), skewed/radial geometry, variables '
             'on every kind with permuted dimension order; for EVERY cell n: polygon n vs model ring n, centre n vs model '
             'centre n, position n of every flattened variable vs canon[..., n], select_index(native(n)) vs canon[..., n], '
             'STRtree hits of a point inside cell n; distinct = (convention, shape, hole pattern, variable dims); '
             'non-trivial = >= 2 cells'),
    'min': {'evaluations': 3000, 'distinct': 50,
            'classes': {'dataset-with-holes': 20, 'hole-keeps-slot': 50, 'cell-on-non-default-kind': 200, 'non-square': 20}},
    'must_reach': ['emsarray.conventions.grid:CFGrid1D._make_polygons', 'emsarray.conventions.grid:CFGrid2D._make_polygons',
                   'emsarray.conventions.arakawa_c:ArakawaC._make_polygons', 'emsarray.conventions.ugrid:UGrid._make_polygons',
                   'emsarray.conventions._base:Convention.strtree'],
    'assumptions': ['GEOS intersects predicate (same call on both sides)', 'numpy/xarray container semantics',
                    'derived geometry (CF grids without stored bounds) compared with 1e-9 tolerance'],
}


def run(ctx):
    obs = ctx.obs
    obs.extra['meta'] = META
    from ..model import set_cell_scale_varies
    set_cell_scale_varies(True)            # some datasets are 100 m / 5 m models expressed in degrees
    from ..model import set_declaration_order_varies
    set_declaration_order_varies(True)     # some datasets declare the x dimension before y
    from ..model.grids import set_wide_longitudes
    set_wide_longitudes(True)      # also datasets in the 0..360 convention / straddling 180 degrees
    contracts.attach_all(obs, only={'ravel_dimensions', 'make_polygons_with_holes'})
    total = ctx.n(500, 40000)
    for case, rng in ctx.cases(total):
        conv = CONVENTIONS[case % len(CONVENTIONS)]
        spec = {'case': case, 'convention': conv}
        ctx.run_case(spec, one_dataset, obs, rng, conv, spec, ctx.workdir)


def close(a, b, tol):
    if a is None or b is None:
        return a is b
    for x, y in zip(a, b):
        if math.isnan(x) or math.isnan(y):
            if not (math.isnan(x) and math.isnan(y)):
                return False
        elif abs(x - y) > tol * max(1.0, abs(x), abs(y)):
            return False
    return True


def one_dataset(obs, rng, conv, spec, workdir=None):
    kw = {}
    if conv == 'shoc_standard' and rng.random() < 0.3:
        kw['transpose_face_lon'] = True
        obs.cls('shoc_standard:face-longitude-stored-transposed')
    model = make_dressed(rng, conv, dress=dict(per_kind=(1, 2), nongrid=1), **kw)
    ds, source = model.materialise(rng, workdir)
    obs.cls('source:' + source)
    spec['source'] = source
    with quiet_warnings():
        ems = obs.call('dataset.ems', lambda: ds.ems)
        if isinstance(ems, Failed):
            return
        spec['model'] = model.describe()
        polygons = obs.call('polygons', lambda: ems.polygons)
        mask = obs.call('mask', lambda: ems.mask)
        centres = obs.call('face_centres', lambda: ems.face_centres)
        tree = obs.call('strtree', lambda: ems.strtree)
    if any(isinstance(v, Failed) for v in (polygons, mask, centres, tree)):
        return
    face = model.kinds[model.default_kind]
    size = face.size
    tol = 1e-9 if model.derived_geometry else 0.0
    ok_len = obs.expect(len(polygons) == size and len(mask) == size and centres.shape == (size, 2),
                        'polygons / mask / face_centres have one slot per cell',
                        lambda: {'size': size, 'polygons': len(polygons), 'mask': len(mask), 'centres': centres.shape})
    if not ok_len:
        return
    mpolys = model_polygons(model)
    holes = [n for n in range(size) if mpolys[n] is None]
    if holes:
        obs.cls('dataset-with-holes')
    if len(face.shape) == 2 and face.shape[0] != face.shape[1]:
        obs.cls('non-square')
    if size >= 2:
        obs.sig(conv, face.shape, tuple(holes), tuple(sorted((k, v.dims) for k, v in model.variables.items())))
    for n in range(size):
        want = mpolys[n]
        got = polygons[n]
        if n in model.skip_cells:
            obs.cls('degenerate-derived-cell-skipped')
        elif want is None:
            obs.cls('hole-keeps-slot')
            obs.expect(got is None and not bool(mask[n]), 'hole keeps its slot: polygon None, mask False',
                       lambda: {'n': n, 'got': None if got is None else got.wkt, 'mask': bool(mask[n])}, mech='hole-slot')
        else:
            good = obs.expect(got is not None and bool(mask[n]) and polygon_matches(got, model.cells[n], tol=tol, same_start=False),
                              'polygon n is built from the coordinates of cell n',
                              lambda: {'n': n, 'native': model.native(model.default_kind, n), 'got': None if got is None else got.wkt, 'want': model.cells[n]},
                              mech='polygon-order')
            if good:
                pt = want.representative_point()
                hits = sorted(int(h) for h in tree.query(pt, predicate='intersects'))
                obs.evaluation()
                obs.expect(n in hits and all(mpolys[h] is not None and mpolys[h].intersects(pt) for h in hits if 0 <= h < size)
                           and all(0 <= h < size for h in hits),
                           'spatial index hits are linear indexes of intersecting cells',
                           lambda: {'n': n, 'hits': hits}, mech='strtree-order')
        # centres
        mc = model.centres[n]
        gc = (float(centres[n, 0]), float(centres[n, 1]))
        if mc is None:
            obs.expect(math.isnan(gc[0]) and math.isnan(gc[1]), 'centre of a cell without coordinates is missing',
                       lambda: {'n': n, 'got': gc}, mech='centre-order')
        else:
            ctol = 1e-9 if getattr(model, 'centre_source', '') == 'centroid' else 0.0
            obs.expect(close(gc, mc, ctol), 'face centre n belongs to cell n', lambda: {'n': n, 'got': gc, 'want': mc}, mech='centre-order')
            if want is not None and not model.derived_geometry and is_convex(model.cells[n]):
                obs.expect(want.buffer(1e-9).covers(Point(*gc)), 'face centre n lies in (convex) cell n', lambda: {'n': n, 'centre': gc})
    # the deprecated-but-public spatial_index: items must carry the linear / native index of their polygon
    if size <= 40 and rng.random() < 0.5:
        import warnings
        with warnings.catch_warnings():
            warnings.simplefilter('ignore')
            sidx = obs.call('spatial_index', lambda: ems.spatial_index)
        if not isinstance(sidx, Failed):
            obs.cls('spatial_index:checked')
            items = list(sidx.items['data'])
            live = [n for n in range(size) if polygons[n] is not None]
            obs.expect([int(it.linear_index) for it in items] == live
                       and all(tuple(it.index) == tuple(model.native(model.default_kind, int(it.linear_index))) for it in items)
                       and all(it.polygon is polygons[int(it.linear_index)] or it.polygon.equals_exact(polygons[int(it.linear_index)], 0) for it in items),
                       'spatial_index items name the linear and native index of their own polygon (holes keep their slot)',
                       lambda: {'got': [int(it.linear_index) for it in items][:20], 'want': live[:20]}, mech='spatial-index-order')
    # flattened variables and selectors, on every kind
    flats = {}
    for name, var in model.variables.items():
        if var.kind is None:
            continue
        flat = obs.call('ravel', ems.ravel, ds[name])
        if isinstance(flat, Failed):
            continue
        want = var.expected(var.canon, source)
        obs.expect(tuple(flat.dims[:-1]) == var.extra_dims and nan_equal(flat.values, want),
                   'position n of the flattened variable holds the value of cell n',
                   lambda: {'var': name, 'dims': var.dims, 'got': flat.values, 'want': want}, mech='ravel-order')
        flats[name] = want
    sampled = False
    for kname, kind in model.kinds.items():
        names = [n for n, v in model.variables.items() if v.kind == kname]
        token = model.kind_token(kname)
        for n in range(kind.size):
            native = obs.call('wind_index', ems.wind_index, n, grid_kind=token)
            if isinstance(native, Failed):
                continue
            sel = obs.call('select_index', ems.select_index, native)
            if isinstance(sel, Failed):
                continue
            if kname != model.default_kind:
                obs.cls('cell-on-non-default-kind')
            for name in names:
                var = model.variables[name]
                if not obs.expect(name in sel.variables, 'select_index keeps variables of the selected grid', lambda: {'var': name}):
                    continue
                got = sel[name]
                want = flats.get(name)
                if want is None:
                    continue
                obs.expect(tuple(got.dims) == var.extra_dims and nan_equal(got.values, want[..., n]),
                           'select_index(native(n)) returns element n of the flattened variable',
                           lambda: {'var': name, 'n': n, 'native': repr(native), 'got': got.values, 'want': want[..., n]},
                           mech='selector-order')
            if not sampled and names and kind.size > 3 and n == kind.size - 2:
                sampled = True
                obs.sample({'convention': conv, 'kind': kname, 'shape': kind.shape, 'n': n, 'native': repr(native),
                            'variable': names[0], 'dims': model.variables[names[0]].dims,
                            'selected values': sel[names[0]].values.ravel()[:4], 'holes': holes[:6]})
    if source == 'disk':
        ds.close()
