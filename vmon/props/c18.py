"""C18 - transects cover exactly the part of the path inside the model, in path order."""
import numpy
import shapely
from shapely.geometry import LineString, Point, Polygon
from shapely.ops import substring

from .. import probes
from ..common import Failed, nan_equal, quiet_warnings
from ..geomgen import hull_bounds, model_polygons, polygon_matches, polylines
from ..model import CONVENTIONS, make_dressed
from ..model.base import Var
from ..model.ugrid import Mesh, is_convex, make_ugrid, random_mesh
from ..oracles import transect1d as t1
from ..rng import chance, pick

# `import cfunits` needs the udunits2 C library, absent here; emsarray.transect only uses it for axis labels.
# The stand-in must exist before the reach monitor resolves the anchors (which imports emsarray.transect).
probes.install_cfunits_stub()

ANCHORS = [
    'emsarray.transect:Transect.segments',
    'emsarray.transect:Transect._intersect_polygon',
    'emsarray.transect:Transect.points',
    'emsarray.transect:Transect.distance_along_line',
    'emsarray.transect:Transect.prepare_data_array_for_transect',
    'emsarray.transect:Transect.transect_dataset',
    'emsarray.conventions._base:Convention.strtree',
]

META = {
    'rule': ('generated datasets of all conventions (grids with isolated/line/block holes, bow-ties, skewed and radial maps; '
             'meshes with triangles..concave octagons, half of them with faces removed) carrying a depth coordinate with a '
             '`positive` attribute and float variables on (time?, band?, depth, cell) in random dimension order; per dataset '
             '8-12 simple polylines with 2-6 vertices of the classes through / inside / start or end inside / zig-zag / miss / '
             'along a shared edge / along a border edge / through a shared corner / across a hole / leaving and re-entering a '
             'concave cell. Oracle: pieces of the path per model polygon (GEOS) as 1-D intervals of path position, the '
             'documented azimuthal-equidistant metric recomputed with cartopy+pyproj only, canon[..., n] for the prepared '
             'data. distinct = (convention, shape, holes, path); non-trivial = path meeting >= 2 cells, or none at all'),
    'min': {'evaluations': 2000, 'distinct': 150,
            'classes': {'dataset-with-holes': 15, 'mesh-with-removed-faces': 3, 'path:miss': 10, 'path:through-enclosed-hole': 5,
                        'path:leaves-and-returns': 20, 'path:re-enters-cell': 3, 'path:along-shared-edge': 15,
                        'path:along-border-edge': 5, 'path:corner-touch': 10, 'path:starts-inside': 40, 'path:ends-inside': 40,
                        'path:starts-outside': 40, 'path:vertex-inside-cell': 30, 'path:multi-leg': 60,
                        'segment': 1500, 'segment-end-distance-recomputed': 3000, 'prepared-variable': 300,
                        'dims:depth-not-adjacent-to-cell': 20, 'transect-dataset': 200}},
    'must_reach': ['emsarray.transect:Transect.segments', 'emsarray.transect:Transect._intersect_polygon',
                   'emsarray.transect:Transect.points', 'emsarray.transect:Transect.distance_along_line',
                   'emsarray.transect:Transect.prepare_data_array_for_transect', 'emsarray.transect:Transect.transect_dataset'],
    'assumptions': ['GEOS intersection / covers / project (shapely) decide both sides',
                    'cartopy PlateCarree->Geodetic conversion and pyproj.Geod.inv (WGS84) are the trusted base of the metric: '
                    'distances are checked against the metric emsarray documents, not against true geodesic metres',
                    'paths are simple and open (self-crossing paths are outside the property)',
                    'a stand-in cfunits module (axis labels only) replaces the one needing the absent udunits2 library',
                    'datasets with degenerate derived cells (model.skip_cells) are skipped'],
}

TOL_GEOM = 1e-9          # degrees: buffers, planar lengths
REL = 1e-6               # metric: relative
ABS = 1e-3               # metric: one millimetre


def run(ctx):
    obs = ctx.obs
    obs.extra['meta'] = META
    total = ctx.n(400, 20000)
    for case, rng in ctx.cases(total):
        conv = CONVENTIONS[case % len(CONVENTIONS)]
        spec = {'case': case, 'convention': conv}
        ctx.run_case(spec, one_dataset, obs, rng, conv, spec)


# ---------------------------------------------------------------------------------------------------
# generation
# ---------------------------------------------------------------------------------------------------

def mesh_with_removed_faces(rng):
    """A random mesh with ~25 % of its faces taken out (real holes in the domain), nodes compacted."""
    mesh, winding = random_mesh(rng, maxn=5)
    if mesh.nface < 4:
        return mesh, winding, []
    drop = {f for f in range(mesh.nface) if chance(rng, 0.25)}
    if not drop or len(drop) >= mesh.nface - 1:
        drop = {int(rng.integers(mesh.nface))}
    removed_rings = [mesh.ring(f) for f in sorted(drop)]
    faces = [mesh.faces[f] for f in range(mesh.nface) if f not in drop]
    used = sorted({n for f in faces for n in f})
    remap = {old: new for new, old in enumerate(used)}
    x = numpy.array([mesh.x[o] for o in used])
    y = numpy.array([mesh.y[o] for o in used])
    return Mesh([[remap[n] for n in f] for f in faces], x, y), winding, removed_rings


def make_model(rng, conv):
    hole_points = None
    dress = dict(time=chance(rng, 0.6), depth=True, band=False, per_kind=(0, 0), nongrid=0)
    if conv == 'ugrid':
        if chance(rng, 0.5):
            mesh, winding, removed = mesh_with_removed_faces(rng)
            model = make_ugrid(rng, mesh=mesh, winding=winding)
            from ..model.grids import dress as _dress
            _dress(model, rng, **dress)
            hole_points = [tuple(Polygon(r).representative_point().coords[0]) for r in removed]
            model.removed_faces = len(removed)
        else:
            model = make_dressed(rng, conv, dress=dress, maxn=5)
    else:
        model = make_dressed(rng, conv, dress=dress)
        hole_points = list(getattr(model, 'hole_centres', []) or [])
    model.c18_hole_points = hole_points or []
    add_transect_variables(model, rng)
    return model


def add_transect_variables(model, rng):
    """Float variables on (time?, band?, depth, cell dims) in random order; ids identify (extras..., cell)."""
    kind = model.kinds['face']
    depth = model.depths[0]
    count = int(rng.integers(1, 3))
    band = int(rng.integers(2, 4))
    for i in range(count):
        extras = [(depth['dim'], len(depth['values']))]
        if model.time is not None and chance(rng, 0.6):
            extras.append((model.time['dim'], model.time['size']))
        if chance(rng, 0.25):
            extras.append(('band', band))
        dims = [d for d, _ in extras] + list(kind.dims)
        dims = [dims[k] for k in rng.permutation(len(dims))]
        sizes = dict(extras)
        extra_in_order = [(d, sizes[d]) for d in dims if d in sizes]
        canon = model.fresh_ids(tuple(s for _, s in extra_in_order) + (kind.size,))
        dtype = pick(rng, ['float64', 'float64', 'float32'])
        if dtype == 'float32' and canon.max() >= 2 ** 24:
            dtype = 'float64'
        if chance(rng, 0.5):
            canon = numpy.where(rng.random(kind.size) < 0.15, numpy.nan, canon)
        else:
            canon = numpy.where(rng.random(canon.shape) < 0.15, numpy.nan, canon)
        name = 'tr%d' % i
        model.variables[name] = Var(name, 'face', extra_in_order, dims, canon, dtype, None,
                                    attrs={'long_name': 'transect variable %d' % i, 'units': 'degrees_C'})


def _rep(poly):
    return tuple(poly.representative_point().coords[0])


def _random_inside(rng, poly, tries=30):
    minx, miny, maxx, maxy = poly.bounds
    for _ in range(tries):
        p = (float(rng.uniform(minx, maxx)), float(rng.uniform(miny, maxy)))
        if poly.contains(Point(p)):
            return p
    return _rep(poly)


def edge_table(model, polys):
    """{frozenset({a, b}): [(cell, a, b)]} over the rings of cells with geometry (exact coordinates)."""
    table = {}
    for n, poly in enumerate(polys):
        if poly is None:
            continue
        ring = model.cells[n]
        for k in range(len(ring)):
            a, b = tuple(ring[k]), tuple(ring[(k + 1) % len(ring)])
            if a != b:
                table.setdefault(frozenset((a, b)), []).append((n, a, b))
    return table


def extra_polylines(model, rng, polys, count):
    """Targeted paths; every one is built from exact model coordinates where exactness matters."""
    minx, miny, maxx, maxy = hull_bounds(model)
    w, h = max(maxx - minx, 1e-6), max(maxy - miny, 1e-6)
    live = [n for n, p in enumerate(polys) if p is not None]
    edges = edge_table(model, polys)
    shared = [v[0][1:] for v in edges.values() if len(v) >= 2]
    border = [v[0][1:] for v in edges.values() if len(v) == 1]
    vertex_cells = {}
    for n in live:
        for p in model.cells[n]:
            vertex_cells.setdefault(tuple(p), set()).add(n)
    corners = [v for v, cells in vertex_cells.items() if len(cells) >= 3]
    concave = [n for n in live if not is_convex(model.cells[n])]
    holes = model.c18_hole_points

    def outside():
        side = pick(rng, ['l', 'r', 'b', 't'])
        x, y = float(rng.uniform(minx, maxx)), float(rng.uniform(miny, maxy))
        return {'l': (minx - 0.3 * w, y), 'r': (maxx + 0.3 * w, y), 'b': (x, miny - 0.3 * h), 't': (x, maxy + 0.3 * h)}[side]

    def anywhere():
        return _random_inside(rng, polys[pick(rng, live)]) if chance(rng, 0.6) else outside()

    classes = ['shared_edge', 'shared_edge', 'shared_edge_legs', 'border_edge', 'corner', 'hole_cross', 'hole_cross', 'reenter',
               'end_inside', 'start_inside', 'multi_inside', 'north_from_inside']
    if model.derived_geometry:
        # synthesised corners are only known to 1e-9: whether a path drawn exactly along a model edge shares a length
        # with the cell on either side (or, for a path vertex put on a model corner, on which side of that vertex a piece
        # ends) is not decidable from the model, so such paths are not generated
        classes = [c for c in classes if c not in ('shared_edge', 'shared_edge_legs', 'border_edge', 'corner')]
    out, tries = [], 0
    while len(out) < count and tries < count * 25:
        tries += 1
        c = pick(rng, classes)
        pts = None
        if c == 'shared_edge' and shared:
            a, b = pick(rng, shared)
            pts = [a, b] if chance(rng, 0.5) else [b, a]
            if chance(rng, 0.3):
                pts = [pts[0], ((pts[0][0] + pts[1][0]) / 2, (pts[0][1] + pts[1][1]) / 2)]     # about half the edge
        elif c == 'shared_edge_legs' and shared:
            a, b = pick(rng, shared)
            if chance(rng, 0.5):
                a, b = b, a
            pts = [anywhere(), a, b, anywhere()]
            if chance(rng, 0.3):
                pts = pts[1:]
            elif chance(rng, 0.3):
                pts = pts[:-1]
        elif c == 'border_edge' and border:
            a, b = pick(rng, border)
            pts = [a, b] if chance(rng, 0.5) else [anywhere(), a, b]
        elif c == 'corner' and corners:
            v = pick(rng, corners)
            pts = [anywhere(), v, anywhere()]
        elif c == 'hole_cross' and holes:
            hp = pick(rng, holes)
            a = _random_inside(rng, polys[pick(rng, live)])
            d = (hp[0] - a[0], hp[1] - a[1])
            t = float(rng.uniform(1.3, 3.0))
            pts = [a, hp, (a[0] + t * d[0], a[1] + t * d[1])] if chance(rng, 0.5) else [a, (a[0] + t * d[0], a[1] + t * d[1])]
        elif c == 'reenter' and concave:
            n = pick(rng, concave)
            for _ in range(20):
                a, b = _random_inside(rng, polys[n]), _random_inside(rng, polys[n])
                if a != b and not polys[n].covers(LineString([a, b])):
                    pts = [a, b]
                    break
        elif c == 'end_inside':
            pts = [outside(), _random_inside(rng, polys[pick(rng, live)])]
            if chance(rng, 0.4):
                pts.insert(1, anywhere())
        elif c == 'start_inside':
            pts = [_random_inside(rng, polys[pick(rng, live)]), outside()]
            if chance(rng, 0.4):
                pts.insert(1, anywhere())
        elif c == 'multi_inside':
            pts = [_random_inside(rng, polys[pick(rng, live)]) for _ in range(int(rng.integers(3, 7)))]
        elif c == 'north_from_inside':
            a = _random_inside(rng, polys[pick(rng, live)])
            pts = [a, (a[0] + float(rng.uniform(-0.2, 0.2)) * w, maxy + 0.2 * h)]
        if not pts:
            continue
        pts = [(float(p[0]), float(p[1])) for p in pts]
        pts = [p for i, p in enumerate(pts) if i == 0 or p != pts[i - 1]]
        if not 2 <= len(pts) <= 6:
            continue
        line = LineString(pts)
        if not line.is_simple or line.is_closed or line.length == 0:
            continue
        out.append((line, c))
    return out


# ---------------------------------------------------------------------------------------------------
# one dataset
# ---------------------------------------------------------------------------------------------------

def same_native(got, want):
    try:
        got = tuple(got)
    except TypeError:
        return False
    if len(got) != len(want):
        return False
    for g, w in zip(got, want):
        if isinstance(w, str):
            if str(getattr(g, 'value', g)) != w or g != w:
                return False
        elif isinstance(g, bool) or not isinstance(g, (int, numpy.integer)) or int(g) != w:
            return False
    return True


def one_dataset(obs, rng, conv, spec):
    from emsarray.transect import Transect
    model = make_model(rng, conv)
    spec['model'] = model.describe()
    if model.skip_cells:
        obs.cls('dataset-with-degenerate-derived-cells-skipped')
        return
    d0 = model.depths[0]
    if chance(rng, 0.4) and len(d0['values']) >= 2:
        # the depth coordinate carries its own bounds (layer interfaces that are NOT half way between the layer centres)
        vals = numpy.asarray(d0['values'], dtype=float)
        gaps = vals[1:] - vals[:-1]
        inner = (vals[1:] + vals[:-1]) / 2 + gaps * rng.uniform(-0.2, 0.2, size=len(gaps))
        edges = numpy.concatenate([[vals[0] - (inner[0] - vals[0])], inner, [vals[-1] + (vals[-1] - inner[-1])]])
        d0['bounds'] = numpy.column_stack([edges[:-1], edges[1:]])
        obs.cls('depth-coordinate-with-stored-bounds')
    ds = model.encode()
    two_depths = False
    if chance(rng, 0.3):
        # a second depth coordinate on a dimension of its own, listed FIRST: the layer interfaces (one more value than the
        # layer centres). The documented default depth coordinate of a dataset is the smallest one, i.e. the centres.
        import xarray
        d0 = model.depths[0]
        vals = numpy.asarray(d0['values'], dtype=float)
        step = float(vals[1] - vals[0]) if len(vals) > 1 else 1.0
        inter = numpy.concatenate([[vals[0] - step / 2], (vals[1:] + vals[:-1]) / 2, [vals[-1] + (float(vals[-1] - vals[-2]) if len(vals) > 1 else 1.0) / 2]])
        zi = xarray.DataArray(inter, dims=['n_interface'], attrs={'positive': d0['positive'], 'standard_name': 'depth', 'long_name': 'layer interfaces'})
        ds2 = xarray.Dataset(coords={'z_interface': zi}).assign_coords({n: ds.coords[n].variable for n in ds.coords})
        ds2 = ds2.assign({n: ds.data_vars[n].variable for n in ds.data_vars})
        ds2.attrs = dict(ds.attrs)
        if list(ds2.variables)[0] == 'z_interface' and ds2.drop_vars('z_interface').identical(ds):
            ds = ds2
            two_depths = True
            obs.cls('dataset-with-layer-interfaces-listed-first')
    with quiet_warnings():
        ems = obs.call('dataset.ems', lambda: ds.ems)
        if isinstance(ems, Failed):
            return
        got_polys = obs.call('polygons', lambda: ems.polygons)
    if isinstance(got_polys, Failed):
        return
    polys = model_polygons(model)
    live = [n for n, p in enumerate(polys) if p is not None]
    if not live:
        obs.cls('dataset-without-cells-skipped')
        return
    holes = [n for n, p in enumerate(polys) if p is None]
    if holes or getattr(model, 'removed_faces', 0):
        obs.cls('dataset-with-holes')
    if getattr(model, 'removed_faces', 0):
        obs.cls('mesh-with-removed-faces')
    if model.invalid_cells:
        obs.cls('dataset-with-bow-tie')
    env = {
        'model': model, 'ds': ds, 'polys': polys, 'live': live, 'conv': conv,
        'buffers': {}, 'boundaries': {},
        'union': shapely.unary_union([polys[n] for n in live]),
        'depth': model.depths[0],
        'tvars': [n for n in model.variables if n.startswith('tr')],
        'Transect': Transect, 'two_depths': two_depths,
    }
    lines = polylines(model, rng, int(rng.integers(3, 6))) + extra_polylines(model, rng, polys, int(rng.integers(5, 8)))
    from ..geomgen import robustly_simple
    for idx, (line, cls) in enumerate(lines):
        if not line.is_simple or line.is_closed:
            continue
        if not robustly_simple([tuple(c[:2]) for c in line.coords], 1e-7):
            # a vertex within an ulp of another leg: GEOS calls the path simple, but positions along it are ambiguous
            obs.cls('path:nearly-self-touching-not-asserted')
            continue
        if model.derived_geometry and cls == 'along_edge':
            obs.cls('derived-geometry:along-edge-path-not-asserted')
            continue
        spec['path'] = {'class': cls, 'wkt': line.wkt}
        one_transect(obs, rng, env, line, cls, spec)
    spec.pop('path', None)


def _buffer(env, n):
    b = env['buffers'].get(n)
    if b is None:
        b = env['buffers'][n] = env['polys'][n].buffer(TOL_GEOM)
    return b


def _boundary(env, n):
    b = env['boundaries'].get(n)
    if b is None:
        b = env['boundaries'][n] = env['polys'][n].boundary.buffer(TOL_GEOM)
    return b


def expected_pieces(env, line):
    """{cell: [Piece]} for every model cell sharing a positive length with the path (GEOS on the model's polygons)."""
    out = {}
    polys = env['polys']
    for n in env['live']:
        poly = polys[n]
        if not poly.intersects(line):
            continue
        parts = t1.line_parts(poly.intersection(line))
        pieces = [t1.piece_of(line, g, n) for g in parts]
        pieces = [p for p in pieces if p.length > 0]
        if pieces:
            out[n] = pieces
    return out


def one_transect(obs, rng, env, line, cls, spec):
    model, ds, polys, conv = env['model'], env['ds'], env['polys'], env['conv']
    face = model.kinds['face']
    depth = env['depth']
    tol = TOL_GEOM if model.derived_geometry else 0.0

    # ---------------- oracle side: from the model and the path only ------------------------------------
    want = expected_pieces(env, line)
    all_want = [p for ps in want.values() for p in ps]
    inside = t1.union(all_want)                          # maximal pieces of the path inside the model
    inside_len = sum(p.length for p in inside)
    multi = t1.multiplicity(want)
    shared_len = sum((x1 - x0) * (len(labs) - 1) for x0, x1, labs in multi)
    metric = t1.Metric(line)
    nvert = len(line.coords)

    # input classes, decided from the model
    obs.cls('path:gen:' + cls)
    if not inside:
        obs.cls('path:miss')
    else:
        obs.cls('path:starts-inside' if inside[0].s0 <= t1.EPS else 'path:starts-outside')
        obs.cls('path:ends-inside' if inside[-1].s1 >= line.length - t1.EPS else 'path:ends-outside')
    if len(inside) >= 2:
        obs.cls('path:leaves-and-returns')
        filled = shapely.unary_union([Polygon(g.exterior) for g in getattr(env['union'], 'geoms', [env['union']])])
        enclosed = filled.difference(env['union'])
        if not enclosed.is_empty and any(
                substring(line, a.s1, b.s0).intersection(enclosed).length > 1e-6 for a, b in zip(inside[:-1], inside[1:])):
            obs.cls('path:through-enclosed-hole')
    if any(len(t1.union(ps)) >= 2 for ps in want.values()):
        obs.cls('path:re-enters-cell')
    if shared_len > TOL_GEOM:
        obs.cls('path:along-shared-edge')
    if cls in ('border_edge', 'along_edge'):
        obs.cls('path:along-border-edge' if cls == 'border_edge' else 'path:along-some-edge')
    if cls == 'corner':
        obs.cls('path:corner-touch')
    if nvert >= 3:
        obs.cls('path:multi-leg')
        inner = [line.project(Point(c)) for c in list(line.coords)[1:-1]]
        if any(p.s0 + 1e-9 < s < p.s1 - 1e-9 for s in inner for p in all_want):
            obs.cls('path:vertex-inside-cell')
    if len(want) >= 2 or not want:
        obs.sig(conv, face.shape, sum(1 for p in polys if p is None), tuple(line.coords))

    # ---------------- emsarray side ----------------------------------------------------------------------
    depth_arg = depth['name'] if chance(rng, 0.7) else ds[depth['name']]
    if chance(rng, 0.5 if env.get('two_depths') else 0.25):
        # no depth argument: the convention's default depth coordinate (the smallest one)
        obs.cls('transect-with-default-depth-coordinate')
        with quiet_warnings():
            transect = obs.call('Transect() without a depth argument', env['Transect'], ds, line)
        if not isinstance(transect, Failed):
            picked = obs.call('Transect.depth', lambda: transect.depth.name)
            if not isinstance(picked, Failed):
                obs.expect(picked == depth['name'], 'default depth coordinate of a transect is the (smallest) depth coordinate of the data',
                           lambda: {'got': picked, 'want': depth['name'], 'two depth coordinates': env.get('two_depths')},
                           mech='default-depth-coordinate')
    else:
        transect = obs.call('Transect()', env['Transect'], ds, line, depth=depth_arg)
    if isinstance(transect, Failed):
        return
    with quiet_warnings():
        segs = obs.call('Transect.segments', lambda: transect.segments)
        points = obs.call('Transect.points', lambda: transect.points)
    if isinstance(segs, Failed) or isinstance(points, Failed):
        return

    # ---- path vertices ------------------------------------------------------------------------------------
    ok_pts = obs.expect(len(points) == nvert and all(tuple(p.point.coords[0]) == tuple(c) for p, c in zip(points, line.coords)),
                        'one transect point per path vertex, in order', lambda: {'points': len(points), 'vertices': nvert})
    if ok_pts:
        for i, p in enumerate(points):
            wantd = metric.acc[i]
            obs.expect(abs(p.distance_metres - wantd) <= REL * abs(wantd) + ABS,
                       'vertex distance = accumulated documented (azimuthal equidistant) leg lengths',
                       lambda: {'vertex': i, 'got': p.distance_metres, 'want': wantd}, mech='vertex-distance')

    # ---- (1) per segment ------------------------------------------------------------------------------------
    path_buffer = line.buffer(TOL_GEOM)
    got = {}                 # cell -> [Piece] as reported
    ends = []                # (path position, reported distance, recomputed distance, point, segment number)
    seg_ok = True
    for k, seg in enumerate(segs):
        obs.cls('segment')
        n = seg.linear_index
        good = obs.expect(isinstance(n, (int, numpy.integer)) and 0 <= int(n) < face.size and polys[int(n)] is not None,
                          'segment names a cell that has geometry', lambda: {'segment': k, 'linear_index': repr(n)}, mech='segment-cell')
        if not good:
            seg_ok = False
            continue
        n = int(n)
        inter = seg.intersection
        good = obs.expect(isinstance(inter, shapely.LineString) and not inter.is_empty and len(inter.coords) >= 2,
                          'segment intersection is a line piece (points where the path only touches a cell are not segments)',
                          lambda: {'segment': k, 'cell': n, 'intersection': getattr(inter, 'wkt', repr(inter))}, mech='segment-not-a-line')
        if not good:
            seg_ok = False
            continue
        obs.expect(_buffer(env, n).covers(inter), 'segment lies within the polygon of the cell it names',
                   lambda: {'segment': k, 'cell': n, 'intersection': inter.wkt, 'cell ring': model.cells[n]}, mech='segment-outside-cell')
        on_path = obs.expect(path_buffer.covers(inter), 'segment is a piece of the path',
                             lambda: {'segment': k, 'intersection': inter.wkt}, mech='segment-off-path')
        obs.expect(same_native(seg.index, model.native('face', n)), 'segment index is the native index of linear_index',
                   lambda: {'segment': k, 'linear_index': n, 'got': repr(seg.index), 'want': model.native('face', n)}, mech='segment-native-index')
        obs.expect(polygon_matches(seg.polygon, model.cells[n], tol=tol, same_start=False), 'segment polygon is the polygon of linear_index',
                   lambda: {'segment': k, 'linear_index': n, 'got': getattr(seg.polygon, 'wkt', None), 'want': model.cells[n]}, mech='segment-polygon')
        obs.expect(seg.start_distance <= seg.end_distance, 'start distance never after end distance',
                   lambda: {'segment': k, 'start': seg.start_distance, 'end': seg.end_distance}, mech='start-after-end')
        pair = sorted([tuple(seg.start_point.coords[0]), tuple(seg.end_point.coords[0])])
        obs.expect(pair == sorted([tuple(inter.coords[0]), tuple(inter.coords[-1])]), 'start / end points are the two ends of the piece',
                   lambda: {'segment': k, 'start': seg.start_point.wkt, 'end': seg.end_point.wkt, 'intersection': inter.wkt}, mech='segment-end-points')
        if not on_path:
            seg_ok = False
            continue
        piece = t1.piece_of(line, inter, n)
        faithful = obs.expect(abs(piece.length - inter.length) <= TOL_GEOM * max(1.0, inter.length),
                              'segment piece follows the path between its two ends',
                              lambda: {'segment': k, 'length': inter.length, 'along path': piece.length}, mech='segment-off-path')
        if not faithful:
            seg_ok = False
            continue
        got.setdefault(n, []).append(piece)
        for pt, dist in ((seg.start_point, seg.start_distance), (seg.end_point, seg.end_distance)):
            xy = tuple(pt.coords[0])
            obs.cls('segment-end-distance-recomputed')
            recomputed = metric.distance(xy)
            agrees = obs.expect(abs(dist - recomputed) <= REL * abs(recomputed) + ABS,
                                'reported distance = documented metric recomputed with cartopy + pyproj only',
                                lambda: {'segment': k, 'point': xy, 'got': dist, 'want': recomputed}, mech='distance-metric')
            ends.append((float(line.project(pt)), float(dist), agrees, xy, k))
    keys = [(s.start_distance, s.end_distance) for s in segs]
    obs.expect(all(a <= b for a, b in zip(keys[:-1], keys[1:])), 'segments sorted by (start distance, end distance)',
               lambda: {'keys': keys}, mech='segments-unsorted')

    offset_present = max(metric.self_distance) > ABS     # PlateCarree -> geodetic is not the identity in this environment

    # ---- (2) completeness, metric free --------------------------------------------------------------------
    if seg_ok:
        all_got = [p for ps in got.values() for p in ps]
        sym = t1.symmetric_difference_measure(all_got, all_want)
        obs.expect(sym <= TOL_GEOM * max(1.0, line.length),
                   'union of the segments = part of the path inside the model',
                   lambda: {'symmetric difference (planar length)': sym, 'inside length': inside_len,
                            'reported': sorted((p.s0, p.s1, p.label) for p in all_got),
                            'expected': sorted((p.s0, p.s1, p.label) for p in all_want)}, mech='coverage')
        missing = [n for n, ps in want.items() if sum(p.length for p in ps) > TOL_GEOM and n not in got]
        obs.expect(not missing, 'every cell sharing a positive length with the path has a segment',
                   lambda: {'cells without segment': missing}, mech='coverage')
        for n, ps in got.items():
            sym_n = t1.symmetric_difference_measure(ps, want.get(n, []))
            obs.expect(sym_n <= TOL_GEOM * max(1.0, line.length), 'segments of a cell = path pieces inside that cell',
                       lambda: {'cell': n, 'symmetric difference': sym_n}, mech='coverage')

    # ---- (3 i) metric-free order ----------------------------------------------------------------------------
    if ends:
        ends_sorted = sorted(ends, key=lambda e: e[0])
        worst = None
        for i in range(len(ends_sorted)):
            si, di = ends_sorted[i][0], ends_sorted[i][1]
            for j in range(i + 1, len(ends_sorted)):
                sj, dj = ends_sorted[j][0], ends_sorted[j][1]
                if sj - si > TOL_GEOM and di - dj > REL * abs(di) + ABS:
                    if worst is None or di - dj > worst[0]:
                        worst = (di - dj, ends_sorted[i], ends_sorted[j])
        if worst is None:
            obs.ok()
        else:
            a, b = worst[1], worst[2]
            explained = offset_present and a[2] and b[2]
            obs.fail('a point further along the path is reported at a smaller distance from the start',
                     {'earlier point': a[3], 'reported distance of the earlier point': a[1], 'later point': b[3],
                      'reported distance of the later point': b[1],
                      'segments': [a[4], b[4]], 'documented distance of a vertex to itself': max(metric.self_distance)},
                     mech='platecarree-latitude-offset' if explained else 'distance-not-monotonic')
    if seg_ok and segs:
        # the list itself is in path order (ties: identical pieces reported for two cells)
        pos = []
        for seg in segs:
            p = t1.piece_of(line, seg.intersection)
            pos.append((p.s0, p.s1))
        bad = [(i, pos[i], pos[i + 1]) for i in range(len(pos) - 1)
               if pos[i][0] > pos[i + 1][0] + TOL_GEOM or (abs(pos[i][0] - pos[i + 1][0]) <= TOL_GEOM and pos[i][1] > pos[i + 1][1] + TOL_GEOM)]
        if not bad:
            obs.ok()
        else:
            # explained by the offset only if the list IS sorted by the reported distances and those are the documented metric
            explained = offset_present and all(e[2] for e in ends) and all(a <= b for a, b in zip(keys[:-1], keys[1:]))
            obs.fail('segments are not listed in path order', {'first out-of-order neighbours': bad[0], 'positions': pos[:12]},
                     mech='platecarree-latitude-offset' if explained else 'segments-not-in-path-order')

    # ---- (4) conservation -----------------------------------------------------------------------------------
    if seg_ok:
        planar_sum = sum(s.intersection.length for s in segs)
        excess = planar_sum - inside_len
        ptol = TOL_GEOM * max(1.0, line.length)
        if abs(excess) <= ptol:
            obs.ok()
        else:
            on_common_boundaries = all(
                all(_boundary(env, c).covers(substring(line, x0, x1)) for c in labs) for x0, x1, labs in multi)
            is_shared = (shared_len > ptol and on_common_boundaries
                         and abs(excess - shared_len) <= TOL_GEOM * max(1.0, shared_len, line.length))
            obs.fail('planar lengths of the segments do not add up to the planar length of the path inside the model',
                     {'sum of segments': planar_sum, 'inside': inside_len, 'excess': excess,
                      'path length on boundaries common to two cells (multiplicity - 1)': shared_len,
                      'shared parts': [(x0, x1, labs) for x0, x1, labs in multi][:6]},
                     mech='shared-edge-double-count' if is_shared else 'conservation')
        # the same in the documented metric
        where = t1.coords_at(all_want)
        dist = {s: metric.distance(xy) for s, xy in where.items()}
        l_inside = sum(dist[p.s1] - dist[p.s0] for p in inside)
        reported = sum(s.end_distance - s.start_distance for s in segs)
        mtol = REL * max(metric.total, 1.0) + ABS * (len(segs) + 2)
        if abs(reported - l_inside) <= mtol:
            obs.ok()
        else:
            # decomposition of the discrepancy: (a) parts of the path counted once per covering cell (from the model),
            # (b) segments whose later end is reported nearer than the earlier one (from the reported, verified ends)
            double = sum((len(labs) - 1) * (dist[x1] - dist[x0]) for x0, x1, labs in multi if x0 in dist and x1 in dist)
            by_seg = {}
            for e in ends:
                by_seg.setdefault(e[4], []).append(e)
            backwards = 0.0
            for pair in by_seg.values():
                if len(pair) == 2:
                    first, second = sorted(pair, key=lambda e: e[0])
                    backwards += 2 * max(0.0, first[1] - second[1])
            all_agree = all(e[2] for e in ends)
            detail = {'sum of (end - start)': reported, 'documented length of the path inside the model': l_inside,
                      'part explained by pieces on common boundaries': double,
                      'part explained by segments whose later end is nearer (latitude offset)': backwards,
                      'documented distance of a vertex to itself': max(metric.self_distance)}
            emitted = False
            if all_agree and abs(reported - (l_inside + double + backwards)) <= mtol:
                on_common_boundaries = all(
                    all(_boundary(env, c).covers(substring(line, x0, x1)) for c in labs) for x0, x1, labs in multi)
                if double > mtol and shared_len > TOL_GEOM and on_common_boundaries:
                    obs.fail('segment lengths (end - start) add up to more than the path inside the model', detail,
                             mech='shared-edge-double-count')
                    emitted = True
                if backwards > mtol and offset_present:
                    obs.fail('segment lengths (end - start) do not add up to the length of the path inside the model', detail,
                             mech='platecarree-latitude-offset')
                    emitted = True
            if not emitted:
                obs.fail('segment lengths (end - start) do not add up to the length of the path inside the model', detail,
                         mech='conservation')

    # ---- distance_along_line for points on the path ------------------------------------------------------------
    for _ in range(2):
        t = float(rng.random()) if chance(rng, 0.8) else float(pick(rng, [0.0, 1.0]))
        pt = line.interpolate(t, normalized=True)
        d = obs.call('distance_along_line', transect.distance_along_line, pt)
        if isinstance(d, Failed):
            continue
        wantd = metric.distance(tuple(pt.coords[0]))
        obs.expect(abs(d - wantd) <= REL * abs(wantd) + ABS, 'distance_along_line = documented metric',
                   lambda: {'point': pt.wkt, 'got': d, 'want': wantd}, mech='distance-metric')

    # ---- (6) transect dataset -------------------------------------------------------------------------------
    td = obs.call('Transect.transect_dataset', lambda: transect.transect_dataset)
    lin = [int(s.linear_index) for s in segs]
    if not isinstance(td, Failed):
        obs.cls('transect-dataset')
        got_lin = numpy.asarray(td['linear_index'].values)
        obs.expect(got_lin.shape == (len(segs),) and [int(v) for v in got_lin] == lin,
                   'transect_dataset.linear_index = linear indexes of the segments, in order',
                   lambda: {'got': got_lin, 'want': lin}, mech='transect-dataset-order')
        wantb = numpy.array([[s.start_distance, s.end_distance] for s in segs], dtype=float).reshape(len(segs), 2)
        gotb = numpy.asarray(td['distance_bounds'].values)
        obs.expect(gotb.shape == wantb.shape and nan_equal(gotb, wantb), 'distance_bounds rows = (start, end) of the segments, in order',
                   lambda: {'got': gotb, 'want': wantb}, mech='transect-dataset-order')
        dvals = numpy.asarray(depth['values'], dtype=float)
        gdep = td.coords['depth']
        obs.expect(tuple(gdep.dims) == (depth['dim'],) and nan_equal(gdep.values, dvals), 'transect depth = depth coordinate values',
                   lambda: {'got': gdep.values, 'want': dvals, 'dims': gdep.dims}, mech='transect-dataset-depth')
        obs.expect(gdep.attrs.get('positive') == depth['positive'], 'transect depth keeps the direction of the depth coordinate',
                   lambda: {'got': gdep.attrs.get('positive'), 'want': depth['positive']}, mech='transect-dataset-depth')
        gb = obs.call('transect_dataset.depth_bounds', lambda: numpy.asarray(td['depth_bounds'].values, dtype=float))
        if not isinstance(gb, Failed):
            if depth.get('bounds') is not None:
                obs.expect(gb.shape == numpy.asarray(depth['bounds']).shape and nan_equal(gb, numpy.asarray(depth['bounds'], dtype=float)),
                           'transect depth bounds are the stored bounds of the depth coordinate',
                           lambda: {'got': gb, 'want': depth['bounds']}, mech='transect-depth-bounds')
            else:
                # made-up bounds: every layer contains its own depth, neighbouring layers meet, no layer is empty
                lo, hi = gb.min(axis=1) if gb.size else gb, gb.max(axis=1) if gb.size else gb
                ok = gb.shape == (len(dvals), 2) and bool(numpy.all((lo <= dvals) & (dvals <= hi))) \
                    and bool(numpy.all(gb[:-1, 1] == gb[1:, 0])) and (len(dvals) < 2 or bool(numpy.all(hi > lo)))
                obs.expect(ok, 'made-up transect depth bounds: each layer holds its depth value, neighbouring layers meet',
                           lambda: {'bounds': gb, 'depths': dvals}, mech='transect-depth-bounds')

    # ---- (5) prepared data ------------------------------------------------------------------------------------
    if isinstance(td, Failed):
        return
    for name in env['tvars']:
        var = model.variables[name]
        plotted = ds[name]
        if chance(rng, 0.3):
            # a variable with a direction of its own (vertical velocity, layer height): its `positive` attribute says which
            # way ITS values point and has nothing to do with the way the depth axis is drawn
            plotted = plotted.assign_attrs(positive=pick(rng, ['up', 'down']))
            obs.cls('prepared-variable-with-its-own-positive-attribute')
        out = obs.call('prepare_data_array_for_transect', transect.prepare_data_array_for_transect, plotted)
        if isinstance(out, Failed):
            continue
        obs.cls('prepared-variable')
        ddim = depth['dim']
        axis = var.extra_dims.index(ddim)
        others = tuple(d for d in var.extra_dims if d != ddim)
        values = numpy.moveaxis(var.typed(var.canon), axis, -2)
        wantv = values[..., lin] if lin else values[..., :0]
        pos = list(var.dims).index(ddim)
        cellpos = [list(var.dims).index(d) for d in face.dims]
        if pos != min(cellpos) - 1 or cellpos != list(range(min(cellpos), min(cellpos) + len(cellpos))):
            obs.cls('dims:depth-not-adjacent-to-cell')
        obs.expect(tuple(out.dims[:-1]) == others + (ddim,) and out.dims[-1] not in var.extra_dims
                   and nan_equal(out.values, wantv),
                   'prepared data: depth and segment last; column k holds the values of the cell of segment k at every depth',
                   lambda: {'variable': name, 'dims': var.dims, 'out dims': out.dims, 'linear indexes': lin,
                            'got': out.values, 'want': wantv}, mech='prepared-data')
    # ---- the same Transect asked again for an array of the same name and dimensions but other values (the next time slice,
    #      the same field from another run): the answer follows the values it is given, not the ones it saw first
    if env['tvars'] and chance(rng, 0.5):
        name = env['tvars'][0]
        var = model.variables[name]
        other = ds[name] * 3 + 1
        other.name = name
        out2 = obs.call('prepare_data_array_for_transect (same name, other values)', transect.prepare_data_array_for_transect, other)
        if not isinstance(out2, Failed):
            obs.cls('prepared-again-with-other-values')
            ddim = depth['dim']
            axis = var.extra_dims.index(ddim)
            values = numpy.moveaxis(var.typed(var.canon).astype('float64') * 3 + 1, axis, -2)
            wantv = values[..., lin] if lin else values[..., :0]
            obs.expect(nan_equal(numpy.asarray(out2.values, dtype='float64'), wantv),
                       'a second array of the same name prepared on the same transect holds its own values',
                       lambda: {'variable': name, 'got': out2.values, 'want': wantv}, mech='prepared-data-stale')
    if len(obs.samples) < 4 and len(segs) >= 3 and (len(obs.samples) < 2 or shared_len > 0):
        obs.sample({'convention': conv, 'grid': face.shape, 'path class': cls, 'path': line.wkt,
                    'segments (cell, start m, end m)': [(int(s.linear_index), round(s.start_distance, 1), round(s.end_distance, 1)) for s in segs[:8]],
                    'inside pieces (planar)': [(round(p.s0, 6), round(p.s1, 6)) for p in inside],
                    'planar sum of segments': sum(s.intersection.length for s in segs), 'planar inside length': inside_len,
                    'path length on common cell boundaries': shared_len})
