"""C05 - index and point selection return the stored values, complete and in order."""
import numpy
import pandas

from ..common import Failed, nan_equal, quiet_warnings
from ..geomgen import query_points
from ..model import CONVENTIONS, make_dressed
from ..oracles.points import locate, near_skipped, oracle_polygons

ANCHORS = [
    'emsarray.conventions._base:DimensionConvention.selector_for_indexes',
    'emsarray.conventions._base:Convention.select_indexes',
    'emsarray.conventions._base:Convention.select_index',
    'emsarray.conventions._base:Convention.select_points',
    'emsarray.conventions._base:Convention.drop_geometry',
    'emsarray.utils:extract_vars',
    'emsarray.operations.point_extraction:extract_points',
    'emsarray.operations.point_extraction:extract_dataframe',
]

META = {
    'rule': ('generated datasets of all conventions x all grid kinds; index lists of 1-12 entries with repeats in shuffled '
             'order and custom index dimension names; point lists mixing interior / boundary / miss points x policies '
             'error|drop|fill x custom point dimension names (select_points, extract_points, extract_dataframe); oracle = '
             'canon[..., n] of the abstract model for the requested cells; distinct = (convention, kind, request list, policy); '
             'non-trivial = request list with >= 2 entries'),
    'min': {'evaluations': 1500, 'distinct': 500,
            'classes': {'indexes:with-repeats': 50, 'indexes:non-default-kind': 100, 'policy:error:raised': 30,
                        'policy:drop:some-missing': 30, 'policy:fill:some-missing': 30, 'points:all-hit': 30, 'points:only-the-first-misses': 30,
                        'absent:other-kind-variable': 100, 'absent:geometry-variable': 100}},
    'must_reach': ['emsarray.conventions._base:Convention.select_indexes', 'emsarray.operations.point_extraction:extract_points',
                   'emsarray.operations.point_extraction:extract_dataframe'],
    'assumptions': ['xarray isel / merge semantics', 'GEOS intersects for point location (C04)',
                    'nothing asserted about variables without a grid dimension; drop with every point missing not asserted'],
}


def run(ctx):
    obs = ctx.obs
    obs.extra['meta'] = META
    from ..model import set_cell_scale_varies
    set_cell_scale_varies(True)            # some datasets are 100 m / 5 m models expressed in degrees
    from ..model import set_declaration_order_varies
    set_declaration_order_varies(True)     # some datasets declare the x dimension before y
    from ..model.grids import set_wide_longitudes
    set_wide_longitudes(True)              # also datasets in the 0..360 convention / straddling 180 degrees
    total = ctx.n(480, 50000)
    for case, rng in ctx.cases(total):
        conv = CONVENTIONS[case % len(CONVENTIONS)]
        spec = {'case': case, 'convention': conv}
        ctx.run_case(spec, one_dataset, obs, rng, conv, spec, ctx.workdir)


def check_selection(obs, model, sel, kname, ns, dim, what, mech, present_ok=True):
    """sel: dataset returned for request list ns (linear indexes on kind kname) along dimension dim (None = scalar)."""
    for name, var in model.variables.items():
        if var.kind is None:
            continue
        if var.kind != kname:
            obs.cls('absent:other-kind-variable')
            obs.expect(name not in sel.variables, what + ': variable of another grid must be absent', lambda: {'var': name}, mech='other-kind-present')
            continue
        if not obs.expect(name in sel.variables, what + ': variable on the selected grid must be present', lambda: {'var': name}, mech=mech):
            continue
        got = sel[name]
        canon = var.expected(var.canon, getattr(model, 'source', 'memory'))
        if dim is None:
            want = canon[..., ns[0]]
            want_dims = var.extra_dims
            ok = tuple(got.dims) == want_dims and nan_equal(got.values, want)
        else:
            want = canon[..., ns]
            want_dims = set(var.extra_dims) | {dim}
            ok = set(got.dims) == want_dims and len(got.dims) == len(want_dims)
            if ok:
                ok = nan_equal(got.transpose(*var.extra_dims, dim).values, want)
            # relative order of the other dimensions must be intact
            if ok:
                ok = tuple(d for d in got.dims if d != dim) == var.extra_dims
        obs.expect(ok, what + ': one entry per request, in request order, stored values bit-for-bit, other dims intact',
                   lambda: {'var': name, 'var_dims': var.dims, 'kind': kname, 'request': ns, 'got_dims': got.dims,
                            'got': got.values, 'want': want}, mech=mech)
        # "stored values": nothing is filled in by these selections, so the numbers keep the type they are stored with
        # (an integer that went through float64 is only the same number below 2**53, a boolean becomes an object)
        stored = getattr(model, 'source_dtypes', {}).get(name)       # the type the opened / built dataset holds them in
        obs.expect(stored is None or got.dtype == stored, what + ': values keep their stored data type',
                   lambda: {'var': name, 'got': str(got.dtype), 'want': str(stored)},
                   mech=mech if mech == 'dataframe-index-labels' else 'selection-dtype-changed')
    for g in model.geometry_names:
        obs.cls('absent:geometry-variable')
        obs.expect(g not in sel.variables, what + ': geometry variable must be absent', lambda: {'var': g}, mech='geometry-present')


def one_dataset(obs, rng, conv, spec, workdir=None):
    model = make_dressed(rng, conv, dress=dict(per_kind=(1, 2), nongrid=1))
    ds, source = model.materialise(rng, workdir)
    obs.cls('source:' + source)
    spec['source'] = source
    model.source = source
    model.source_dtypes = {str(name): ds[name].dtype for name in ds.variables}
    with quiet_warnings():
        ems = obs.call('dataset.ems', lambda: ds.ems)
        if isinstance(ems, Failed):
            return
        epolys = obs.call('polygons', lambda: ems.polygons)
    if isinstance(epolys, Failed):
        return
    spec['model'] = model.describe()
    # ---------------------------------------------------------------- index lists, every kind
    for kname, kind in model.kinds.items():
        token = model.kind_token(kname)
        for _ in range(2):
            k = int(rng.integers(1, 13))
            ns = [int(v) for v in rng.integers(0, kind.size, size=k)]
            if len(set(ns)) < len(ns):
                obs.cls('indexes:with-repeats')
            if kname != model.default_kind:
                obs.cls('indexes:non-default-kind')
            natives = []
            for n in ns:
                nat = model.native(kname, n)
                natives.append(tuple(token if isinstance(c, str) else c for c in nat))
            dim = ['idx', 'station', None][int(rng.integers(3))]
            if dim is None:
                sel = obs.call('select_indexes', ems.select_indexes, natives)
                if isinstance(sel, Failed):
                    continue
                new = [d for d in sel.dims if d not in ds.dims]
                used = new[0] if len(new) == 1 else None
                obs.expect(used is not None and str(used).startswith('index'), 'default index dimension is an unused index* name',
                           lambda: {'new dims': new})
                if used is None:
                    continue
                dim_used = used
            else:
                sel = obs.call('select_indexes(index_dimension=)', ems.select_indexes, natives, index_dimension=dim)
                if isinstance(sel, Failed):
                    continue
                dim_used = dim
            if k >= 2:
                obs.sig(conv, kname, kind.shape, tuple(ns), dim)
            obs.expect(sel.sizes.get(dim_used) == k, 'request dimension has one entry per request', lambda: {'sizes': dict(sel.sizes), 'k': k})
            check_selection(obs, model, sel, kname, ns, dim_used, 'select_indexes', 'select-indexes-values')
            if len(obs.samples) < 2 and k >= 3 and len(kind.shape) == 2:
                names = [n for n, v in model.variables.items() if v.kind == kname]
                obs.sample({'convention': conv, 'kind': kname, 'shape': kind.shape, 'requested linear indexes': ns,
                            'natives': [repr(x) for x in natives], 'variable': names[0], 'dims': model.variables[names[0]].dims,
                            'returned dims': sel[names[0]].dims, 'returned (first extra slice)': sel[names[0]].values.ravel()[:6]})
        # one scalar selection
        n = int(rng.integers(kind.size))
        nat = tuple(token if isinstance(c, str) else c for c in model.native(kname, n))
        one = obs.call('select_index', ems.select_index, nat)
        if not isinstance(one, Failed):
            check_selection(obs, model, one, kname, [n], None, 'select_index', 'select-index-values')
        # the selector itself: dataset.isel(selector_for_index(native)) reads exactly that cell of every variable on the grid
        selector = obs.call('selector_for_index', ems.selector_for_index, nat)
        if not isinstance(selector, Failed):
            obs.cls('selector_for_index')
            for vname, var in model.variables.items():
                if var.kind != kname:
                    continue
                picked = obs.call('variable.isel(selector_for_index)', lambda: ds[vname].isel(selector))
                if isinstance(picked, Failed):
                    continue
                want = var.expected(var.canon, source)[..., n]
                obs.expect(tuple(picked.dims) == var.extra_dims and nan_equal(picked.values, want),
                           'isel(selector_for_index(native(n))) is the value stored at cell n, other dimensions intact',
                           lambda: {'variable': vname, 'n': n, 'got_dims': picked.dims, 'want_dims': var.extra_dims, 'got': picked.values, 'want': want},
                           mech='selector-values')
    # ---------------------------------------------------------------- a variable added AFTER the first selections
    # The dataset object is live: a variable assigned to it later is "a variable defined on the selected grid" as well.
    if rng.random() < 0.4:
        face = model.kinds[model.default_kind]
        late = model.fresh_ids((face.size,))
        import xarray
        ds['late_variable'] = xarray.DataArray(late.reshape(face.shape), dims=face.dims)
        obs.cls('variable-added-after-first-selection')
        ns = [int(v) for v in rng.integers(0, face.size, size=3)]
        token = model.kind_token(model.default_kind)
        natives = [tuple(token if isinstance(c, str) else c for c in model.native(model.default_kind, n)) for n in ns]
        sel = obs.call('select_indexes (after adding a variable)', ems.select_indexes, natives, index_dimension='idx')
        if not isinstance(sel, Failed):
            obs.expect('late_variable' in sel.variables and nan_equal(sel['late_variable'].values, late[ns]),
                       'a variable added to the dataset after an earlier selection is selected like any other',
                       lambda: {'present': 'late_variable' in sel.variables, 'want': late[ns]}, mech='stale-after-dataset-changed')
        del ds['late_variable']
    # ---------------------------------------------------------------- point lists (default kind)
    polys = oracle_polygons(obs, model, epolys)
    if polys is None or not any(p is not None for p in polys):
        return
    for _ in range(3):
        k = int(rng.integers(1, 11))
        pts_cls = [pc for pc in query_points(model, rng, k * 2, fixed=False) if not near_skipped(model, pc[0])][:k]
        # two of the coordinates that every dataset of this worker is asked about (state leaking between datasets)
        from shapely.geometry import Point
        from ..geomgen import FIXED_POINTS
        for xy in [FIXED_POINTS[int(i)] for i in rng.choice(len(FIXED_POINTS), size=2, replace=False)]:
            if not near_skipped(model, Point(*xy)):
                pts_cls.append((Point(*xy), 'fixed_probe'))
        if rng.random() < 0.35:
            pts_cls = [pc for pc in pts_cls if locate(polys, pc[0])[0] is not None]
        if not pts_cls:
            continue
        if rng.random() < 0.25 and len(pts_cls) >= 2:
            # exactly ONE miss, and it is request number 0 (positions are what 'error' reports: 0 must not read as "none")
            hits_only = [pc for pc in pts_cls if locate(polys, pc[0])[0] is not None]
            miss_only = [pc for pc in pts_cls if locate(polys, pc[0])[0] is None]
            if not miss_only:
                from shapely.geometry import Point
                from ..geomgen import hull_bounds
                b = hull_bounds(model)
                miss_only = [(Point(b[2] + 5 * (b[2] - b[0] + 1), b[3] + 5 * (b[3] - b[1] + 1)), 'far_outside')]
            if hits_only:
                pts_cls = [miss_only[0]] + hits_only
                obs.cls('points:only-the-first-misses')
        pts = [p for p, _ in pts_cls]
        located = [locate(polys, p)[0] for p in pts]
        misses = [i for i, n in enumerate(located) if n is None]
        hits = [i for i, n in enumerate(located) if n is not None]
        hit_cells = [located[i] for i in hits]
        policy = ['error', 'drop', 'fill'][int(rng.integers(3))]
        pdim = ['point', 'obs', 'site', None][int(rng.integers(4))]
        api = ['select_points', 'extract_points', 'extract_dataframe'][int(rng.integers(3))] if policy != 'fill' else 'extract_dataframe'
        if pdim in ds.dims:
            pdim = 'site'           # a custom name equal to an existing dimension is a caller error: not exercised
        if pdim is None and api == 'extract_dataframe' and 'point' in ds.dims:
            pdim = 'obs'            # extract_dataframe's documented default is the literal 'point'
            obs.cls('extract_dataframe:default-name-collision-not-asserted')
        if policy == 'fill' and all(n is None for n in located):
            obs.cls('policy:fill:all-missing-not-asserted')
            continue
        if len(pts) >= 2:
            obs.sig(conv, api, policy, pdim, tuple((p.x, p.y) for p in pts))
        if not misses:
            obs.cls('points:all-hit')
        df = None
        omit_default = rng.random() < 0.5          # 'error' is the documented default of every entry point: sometimes not passed
        if policy == 'error' and omit_default:
            obs.cls('policy:error-by-default')
        if api == 'extract_dataframe':
            from emsarray.operations import point_extraction
            df = pandas.DataFrame({'plon': [p.x for p in pts], 'plat': [p.y for p in pts],
                                   'tag': [float(v) for v in model.fresh_ids((len(pts),))]})
            # the table's own index: 0..k-1 as read from a file, or what is left of the index of a larger table after
            # filtering / sorting it. Rows are requests "in request order" whatever their labels are.
            index_style = (lambda seq: seq[int(rng.integers(len(seq)))])(['range', 'range', 'gappy', 'reversed', 'offset', 'shuffled',
                                                                           'range-slice', 'range-step'])
            if index_style == 'gappy':
                df.index = numpy.cumsum(rng.integers(1, 4, size=len(pts))) + 3
            elif index_style == 'reversed':
                df.index = numpy.arange(len(pts))[::-1]
            elif index_style == 'offset':
                df.index = numpy.arange(len(pts)) + 1
            elif index_style == 'shuffled':
                df.index = rng.permutation(len(pts))
            elif index_style == 'range-slice':
                df.index = pandas.RangeIndex(3, 3 + len(pts))                 # big.iloc[3:3 + k]
            elif index_style == 'range-step':
                df.index = pandas.RangeIndex(1, 1 + 2 * len(pts), 2)          # big.iloc[1::2]
            obs.cls('dataframe-index:' + index_style)
            kwargs = {'missing_points': policy} if not (policy == 'error' and omit_default) else {}
            if pdim is not None:
                kwargs['point_dimension'] = pdim
            call = lambda: point_extraction.extract_dataframe(ds, df, ('plon', 'plat'), **kwargs)   # noqa: E731
        elif api == 'extract_points':
            from emsarray.operations import point_extraction
            kwargs = {'missing_points': policy} if not (policy == 'error' and omit_default) else {}
            if pdim is not None:
                kwargs['point_dimension'] = pdim
            call = lambda: point_extraction.extract_points(ds, pts, **kwargs)   # noqa: E731
        else:
            kwargs = {'missing_points': policy} if not (policy == 'error' and omit_default) else {}
            if pdim is not None:
                kwargs['point_dimension'] = pdim
            call = lambda: ems.select_points(pts, **kwargs)   # noqa: E731
        odd_index = df is not None and index_style != 'range'
        # a per-cell time stamp / duration on the grid (e.g. "time of last wetting"): 'fill' must give NaT for the misses
        stamp = None
        if 'stamp' in ds.variables:
            del ds['stamp']
        if policy == 'fill' and rng.random() < 0.5:
            import xarray
            face = model.kinds['face']
            unit = ['datetime64[ns]', 'timedelta64[ns]'][int(rng.integers(2))]
            stamp = (model.fresh_ids((face.size,)).astype('int64') * 1000000000).astype(unit)
            ds['stamp'] = xarray.DataArray(stamp.reshape(face.shape), dims=face.dims)
            obs.cls('fill:grid-variable-' + unit)

        def M(default):
            return 'dataframe-index-labels' if odd_index else default
        dim_used = pdim if pdim is not None else 'point'
        if pdim is None and 'point' in ds.dims and api != 'extract_dataframe':
            dim_used = None  # default name collides with a dataset dimension: must be some unused point_N

        if policy == 'error' and misses:
            from emsarray.operations.point_extraction import NonIntersectingPoints
            exc = obs.raises('%s(missing_points=error) with misses' % api, call, exc_types=(NonIntersectingPoints,), mech='policy-error-not-raised')
            if exc is not None:
                obs.cls('policy:error:raised')
                obs.expect([int(i) for i in exc.indexes] == misses, "'error' names exactly the points that miss the model",
                           lambda: {'got': [int(i) for i in exc.indexes], 'want': misses}, mech='policy-error-wrong-points')
                obs.expect(len(exc.points) == len(misses) and all(a.equals(pts[i]) for a, i in zip(exc.points, misses)),
                           "'error' lists exactly the missing points", mech='policy-error-wrong-points')
            continue
        if policy == 'drop' and not hits:
            obs.cls('policy:drop:all-missing-not-asserted')
            continue
        out = obs.call('%s(missing_points=%s)' % (api, policy), call, mech=M(None))
        if isinstance(out, Failed):
            continue
        if dim_used is None:
            new = [d for d in out.dims if d not in ds.dims]
            if not obs.expect(len(new) == 1 and str(new[0]).startswith('point'), 'default point dimension is an unused point* name', lambda: {'new': new}):
                continue
            dim_used = new[0]
        if policy in ('error', 'drop'):
            if policy == 'drop' and misses:
                obs.cls('policy:drop:some-missing')
            obs.expect(out.sizes.get(dim_used) == len(hits), 'one row per intersecting request', lambda: {'sizes': dict(out.sizes), 'hits': len(hits)}, mech=M('policy-rows'))
            if out.sizes.get(dim_used) != len(hits):
                continue
            labels = [int(v) for v in out[dim_used].values] if dim_used in out.coords else None
            obs.expect(labels == hits, 'rows are labelled with the original positions of the points', lambda: {'labels': labels, 'want': hits}, mech=M('policy-labels'))
            check_selection(obs, model, out, 'face', hit_cells, dim_used, '%s/%s' % (api, policy), M('points-values'))
            if df is not None:
                obs.expect('tag' in out.variables and nan_equal(out['tag'].values, df['tag'].values[hits]), 'dataframe columns merged row-aligned',
                           lambda: {'got': out['tag'].values if 'tag' in out.variables else None, 'want': df['tag'].values[hits]}, mech=M('dataframe-misaligned'))
                obs.expect(nan_equal(out['plon'].values, df['plon'].values[hits]) and nan_equal(out['plat'].values, df['plat'].values[hits]),
                           'coordinate columns merged row-aligned', mech=M('dataframe-misaligned'))
        else:  # fill
            if misses:
                obs.cls('policy:fill:some-missing')
            obs.expect(out.sizes.get(dim_used) == len(pts), "'fill' keeps one row per request", lambda: {'sizes': dict(out.sizes), 'n': len(pts)}, mech=M('policy-rows'))
            if out.sizes.get(dim_used) != len(pts):
                continue
            labels = [int(v) for v in out[dim_used].values]
            obs.expect(labels == list(range(len(pts))), "'fill' rows are labelled 0..k-1 in request order", lambda: {'labels': labels}, mech=M('policy-labels'))
            obs.expect(nan_equal(out['tag'].values, df['tag'].values), 'dataframe columns merged row-aligned (fill)', mech=M('dataframe-misaligned'))
            for name, var in model.variables.items():
                if var.kind != 'face':
                    continue
                if not obs.expect(name in out.variables, 'fill: variable on the face grid present', lambda: {'var': name}, mech=M('points-values')):
                    continue
                got = out[name].transpose(*var.extra_dims, dim_used).values
                canon = var.expected(var.canon, source)
                ok = True
                for row, n in enumerate(located):
                    col = got[..., row]
                    if n is None:
                        if got.dtype.kind == 'f':
                            ok = ok and bool(numpy.isnan(col).all())
                        else:
                            obs.cls('fill:non-float-result-not-asserted')
                    else:
                        ok = ok and nan_equal(col.astype(float), canon[..., n].astype(float))
                obs.expect(ok, "'fill': stored values for hits, missing data for misses, row-aligned",
                           lambda: {'var': name, 'located': located, 'got': got}, mech=M('points-values'))
            for g in model.geometry_names:
                obs.expect(g not in out.variables, 'fill: geometry variable must be absent', lambda: {'var': g}, mech='geometry-present')
            if stamp is not None and 'stamp' in out.variables:
                got = out['stamp'].values
                ok = got.dtype == stamp.dtype and all(
                    (numpy.isnat(got[row]) if n is None else got[row] == stamp[n]) for row, n in enumerate(located))
                obs.expect(bool(ok), "'fill': a time stamp / duration variable keeps its values for hits and is NaT for misses",
                           lambda: {'got': got, 'located': located}, mech=M('points-values'))
        if len(obs.samples) < 4 and misses and hits:
            obs.sample({'convention': conv, 'api': api, 'policy': policy, 'point_dimension': pdim,
                        'points': [p.wkt for p in pts], 'classes': [c for _, c in pts_cls], 'located cells': located,
                        'result sizes': dict(out.sizes)})
