"""C14 - the triangulation exactly partitions every cell polygon."""
from fractions import Fraction

import numpy
from shapely.geometry import MultiPoint, Polygon

from ..common import Failed, quiet_warnings
from ..geomgen import model_polygons
from ..model import CONVENTIONS, make
from ..model.ugrid import is_convex, make_ugrid
from ..oracles import freefaces as ff
from ..rng import chance, pick

ANCHORS = [
    'emsarray.operations.triangulate:triangulate_dataset',
    'emsarray.operations.triangulate:_triangulate_polygons_by_length',
    'emsarray.operations.triangulate:_triangulate_concave_polygon',
]

META = {
    'rule': ('triangulate_dataset(ds) on (a) generated datasets of all five conventions (holes: isolated, lines, blocks; bow-tie '
             'cells; UGRID meshes with triangles, quads, pentagons, hexagons and concave L-shaped octagons) and (b) meshes of '
             'free-standing faces on an integer lattice, every face with its own nodes: convex 3..8-gons, convex faces with '
             'exactly collinear vertices, rectilinear L/U/T/S/staircase/notched shapes, darts, stars, arrows, star-shaped and '
             '2-opt random simple polygons, under integer linear maps, clockwise / anticlockwise / mixed winding, random '
             'start vertex; (c) the same lattice faces under a rigid float rotation (nearly collinear vertices). Every face is '
             'checked to be a valid simple polygon by shapely and by an exact rational test before use. For EVERY cell: '
             'n-2 triangles carry its linear index, every triangle vertex is a vertex of that cell, every triangle is covered '
             'by the cell, triangle interiors are pairwise disjoint (exact separating-axis test), areas sum to the cell area '
             '(exact rational arithmetic on the lattice, 1e-9 relative elsewhere). distinct = (shape, local ring, winding, '
             'start) for faces with >= 4 sides, (convention, shape, hole pattern) for datasets with >= 2 cells'),
    'min': {'evaluations': 1500, 'distinct': 300,
            'classes': {'face:convex': 100, 'face:concave': 200, 'face:collinear': 100, 'face:concave+collinear': 30,
                        'face:cw': 200, 'face:ccw': 200, 'face:float-rotated': 50,
                        'sides:3': 10, 'sides:4': 50, 'sides:5': 50, 'sides:6': 50, 'sides:7': 50, 'sides:8': 50,
                        'hole-no-triangles': 50, 'dataset-with-holes': 10, 'cell:concave-in-generated-mesh': 5,
                        'dataset:cf1d': 5, 'dataset:cf2d': 5, 'dataset:shoc_simple': 5, 'dataset:shoc_standard': 5,
                        'dataset:ugrid': 5, 'mesh:tiny-cells-far-from-origin': 5, 'mesh:duplicate-node-coordinates': 3}},
    'must_reach': ANCHORS,
    'assumptions': ['GEOS covers / difference (shapely) decide "triangle lies inside the cell" (area outside <= 1e-12 x cell area)',
                    'fractions.Fraction(float) is exact: areas, orientation and the separating-axis overlap test use exact '
                    'rational arithmetic on the stored coordinates',
                    'inside + pairwise disjoint interiors + equal area sum => exact cover',
                    'a zero-area triangle is not demanded absent: on a cell with three collinear vertices the statement '
                    '(n-2 triangles, inside, no overlap, areas sum) can hold with one; on a cell without, it cannot, and the area '
                    'check reports it'],
}


def run(ctx):
    obs = ctx.obs
    obs.extra['meta'] = META
    for case, rng in ctx.cases(ctx.n(200, 24000), stream='datasets'):
        conv = CONVENTIONS[case % len(CONVENTIONS)]
        spec = {'case': case, 'stream': 'datasets', 'convention': conv}
        ctx.run_case(spec, dataset_case, obs, rng, conv, spec)
    for case, rng in ctx.cases(ctx.n(140, 36000), stream='faces'):
        spec = {'case': case, 'stream': 'faces'}
        ctx.run_case(spec, faces_case, obs, rng, spec)


# ---------------------------------------------------------------------------
# case bodies
# ---------------------------------------------------------------------------

def dataset_case(obs, rng, conv, spec):
    kw = {}
    if conv in ('cf2d', 'shoc_simple', 'shoc_standard') and chance(rng, 0.6):
        kw['holes'] = pick(rng, ['scatter', 'line', 'block', 'mixed'])
    if conv == 'ugrid':
        kw['maxn'] = int(pick(rng, [3, 4, 5]))
        if chance(rng, 0.3):
            # a "stitched" mesh: every face owns its nodes, so several node indexes carry identical coordinates
            from ..model.ugrid import Mesh, random_mesh
            base, winding = random_mesh(rng, maxn=kw['maxn'])
            faces, xs, ys = [], [], []
            for f in base.faces:
                faces.append(list(range(len(xs), len(xs) + len(f))))
                xs.extend(float(base.x[n]) for n in f)
                ys.extend(float(base.y[n]) for n in f)
            kw.update(mesh=Mesh(faces, xs, ys), winding=winding)
            kw.pop('maxn')
            obs.cls('mesh:duplicate-node-coordinates')
    model = make(rng, conv, **kw)
    ds = model.encode()
    if chance(rng, 0.3):
        # a file-backed dataset, and always the same path (rewritten with another dataset each time): what is
        # triangulated is the dataset's content, not where it was read from
        import os
        import tempfile
        import xarray
        path = os.path.join(tempfile.gettempdir(), 'c14-reused-%d.nc' % os.getpid())
        if os.path.exists(path):
            os.remove(path)
        ds.to_netcdf(path)
        with xarray.open_dataset(path) as opened:
            ds = opened.load()
        obs.cls('dataset:file-backed-at-a-reused-path')
    spec['model'] = model.describe()
    obs.cls('dataset:' + conv)
    face = model.kinds[model.default_kind]
    mpolys = model_polygons(model)
    holes = tuple(n for n, p in enumerate(mpolys) if p is None)
    if holes:
        obs.cls('dataset-with-holes')
    if face.size >= 2:
        obs.sig('dataset', conv, face.shape, holes, tuple(len(c) if c else 0 for c in model.cells))
    check_triangulation(obs, model, ds, mpolys, spec, exact=False, family=conv)


def faces_case(obs, rng, spec):
    rotate = chance(rng, 0.15)
    tiny = (not rotate) and chance(rng, 0.2)
    nfaces = int(rng.integers(8, 25))
    only_quads = chance(rng, 0.15)      # a mesh in which EVERY face has four sides, some of them concave
    mesh, winding, info = ff.free_face_mesh(rng, nfaces, rotate=rotate, tiny=tiny, shape_class='quads' if only_quads else None)
    if only_quads:
        obs.cls('mesh:quadrilaterals-only')
    if tiny:
        obs.cls('mesh:tiny-cells-far-from-origin')
    model = make_ugrid(rng, mesh=mesh, winding=winding)
    ds = model.encode()
    spec.update({'winding': winding, 'rotate': rotate, 'faces': mesh.nface, 'discarded-invalid-draws': mesh.discarded,
                 'encoding': {k: v for k, v in model.encoding.items() if k in ('supplied', 'coord_style', 'face_dim')}})
    obs.cls('invalid-draws-discarded', mesh.discarded)
    for inf in info:
        obs.cls('face:float-rotated' if rotate else 'face:lattice')
        obs.cls('face:cw' if inf['cw'] else 'face:ccw')
        obs.cls('face:concave' if inf['concave'] else 'face:convex')
        if inf['collinear']:
            obs.cls('face:collinear')
            if inf['concave']:
                obs.cls('face:concave+collinear')
        elif inf['triple']:
            obs.cls('face:non-adjacent-collinear-triple')
        if rotate and inf['lattice_collinear'] and not inf['triple']:
            obs.cls('face:nearly-collinear')
        obs.cls('shape:' + inf['label'].rstrip('0123456789'))
        if inf['sides'] >= 4:
            obs.sig('face', inf['label'], tuple(inf['local']), inf['cw'], rotate and spec['case'])
    mpolys = model_polygons(model)
    check_triangulation(obs, model, ds, mpolys, spec, exact=not rotate, family='rotated-faces' if rotate else 'lattice-faces', info=info)


# ---------------------------------------------------------------------------
# the monitor
# ---------------------------------------------------------------------------

def open_ring(ring):
    ring = list(ring)
    if len(ring) > 1 and ring[0] == ring[-1]:
        ring = ring[:-1]
    return ring


def repeated_vertex_cells(model, mpolys):
    """Cells whose ring names the same point twice (collapsed synthesised corners of a CF grid without bounds)."""
    return [n for n, ring in enumerate(model.cells)
            if ring is not None and mpolys[n] is not None and n not in model.skip_cells and len(set(open_ring(ring))) < len(open_ring(ring))]


def exception_mech(family, repeated):
    def mech(exc):
        text = str(exc)
        if 'Could not find interior diagonal' in text:
            # mechanism predicate of 'repeated-vertex-cell': the model holds a cell whose ring names one point twice AND the
            # polygon the ear clipper gave up on (quoted in the message) names one point twice.  Anything else keeps its own key.
            stuck_on_repeat = False
            try:
                import shapely
                coords = list(shapely.from_wkt(text.split('! ', 1)[1]).exterior.coords)[:-1]
                stuck_on_repeat = len(set(coords)) < len(coords)
            except Exception:  # noqa: BLE001
                pass
            return 'no-interior-diagonal:repeated-vertex-cell' if (repeated and stuck_on_repeat) else 'no-interior-diagonal:' + family
        return 'triangulate-raised:' + family
    return mech


def ring_position(ring, tol):
    """Map a coordinate pair to its position in the model ring (exact, or nearest within tol for derived geometry)."""
    table = {}
    for k, p in enumerate(ring):
        table.setdefault((p[0], p[1]), k)

    def find(x, y):
        k = table.get((x, y))
        if k is not None or tol == 0.0:
            return k
        best, bestd = None, None
        for j, p in enumerate(ring):
            d = max(abs(p[0] - x), abs(p[1] - y))
            if d <= tol * max(1.0, abs(x), abs(y)) and (bestd is None or d < bestd):
                best, bestd = j, d
        return best
    return find


def check_triangulation(obs, model, ds, mpolys, spec, *, exact, family, info=None):
    from emsarray.operations.triangulate import triangulate_dataset
    with quiet_warnings():
        ems = obs.call('dataset.ems', lambda: ds.ems)
        if isinstance(ems, Failed):
            return
        repeated = set(repeated_vertex_cells(model, mpolys))
        if repeated:
            obs.cls('dataset-with-repeated-vertex-cell')
        result = obs.call('triangulate_dataset', triangulate_dataset, ds, mech=exception_mech(family, repeated))
        if not isinstance(result, Failed) and isinstance(result, tuple) and len(result) == 3 and spec.get('case', 0) % 3 == 0:
            # the arrays belong to the caller: what a caller does to them (offsetting the vertex indexes to append this mesh to
            # another one, scaling the vertices) must not show in a later triangulation of the same dataset
            first = tuple(numpy.array(a, copy=True) for a in result)
            try:
                for a in result:
                    if isinstance(a, numpy.ndarray) and a.flags.writeable and a.size:
                        a += 7
            except Exception:  # noqa: BLE001
                pass
            again = obs.call('triangulate_dataset (second call)', triangulate_dataset, ds, mech=exception_mech(family, repeated))
            if not isinstance(again, Failed) and isinstance(again, tuple) and len(again) == 3:
                obs.cls('second-triangulation-after-caller-modified-the-first')
                obs.expect(all(numpy.asarray(x).shape == y.shape and bool(numpy.array_equal(numpy.asarray(x), y)) for x, y in zip(again, first)),
                           'a second triangulation of the same dataset is unaffected by what the caller did to the first result',
                           lambda: {'first triangles': first[1][:4], 'second triangles': numpy.asarray(again[1])[:4]},
                           mech='result-shared-between-calls')
            result = first
    if isinstance(result, Failed):
        return
    if not obs.expect(isinstance(result, tuple) and len(result) == 3, 'triangulate_dataset returns (vertices, triangles, cell_indices)',
                      lambda: {'type': type(result).__name__}, mech='result-shape'):
        return
    vertices, triangles, cell_index = (numpy.asarray(a) for a in result)
    if vertices.size == 0 and all(p is None for p in mpolys):
        # a dataset without any geometry: an empty vertex list is an empty vertex list, whatever its array shape
        obs.cls('dataset-without-any-geometry')
        vertices = vertices.reshape((0, 2))
    ok = obs.expect(vertices.ndim == 2 and vertices.shape[1] == 2 and triangles.ndim == 2 and triangles.shape[1] == 3
                    and cell_index.ndim == 1 and len(cell_index) == len(triangles),
                    'vertices (V, 2), triangles (T, 3), cell indexes (T,)',
                    lambda: {'vertices': vertices.shape, 'triangles': triangles.shape, 'cell_index': cell_index.shape}, mech='result-shape')
    if not ok:
        return
    size = model.kinds[model.default_kind].size
    nvert = len(vertices)
    # ---- vertex list: finite, no duplicate rows --------------------------------------------------------
    rows = [(float(x), float(y)) for x, y in vertices.tolist()] if vertices.dtype.kind in 'fiu' else None
    if obs.expect(rows is not None and bool(numpy.all(numpy.isfinite(vertices))), 'vertex coordinates are finite numbers',
                  lambda: {'dtype': str(vertices.dtype)}, mech='vertex-list'):
        seen = {}
        dup = None
        for k, r in enumerate(rows):
            if r in seen:
                dup = (seen[r], k, r)
                break
            seen[r] = k
        obs.expect(dup is None, 'the vertex list has no duplicate rows', lambda: {'rows': dup[:2], 'xy': dup[2], 'V': nvert}, mech='duplicate-vertex')
    else:
        return
    # ---- index arrays: integers in range -----------------------------------------------------------------
    ok_t = obs.expect(triangles.dtype.kind in 'iu' and (triangles.size == 0 or (int(triangles.min()) >= 0 and int(triangles.max()) < nvert)),
                      'every vertex index is an integer in [0, len(vertices))',
                      lambda: {'dtype': str(triangles.dtype), 'V': nvert, 'triangles': triangles[:6]}, mech='vertex-index')
    ok_c = obs.expect(cell_index.dtype.kind in 'iu' and (cell_index.size == 0 or (int(cell_index.min()) >= 0 and int(cell_index.max()) < size)),
                      'every triangle names a linear cell index in [0, size)',
                      lambda: {'dtype': str(cell_index.dtype), 'size': size, 'cell_index': cell_index[:12]}, mech='cell-index')
    if not (ok_t and ok_c):
        return
    by_cell = {}
    for t, c in enumerate(cell_index.tolist()):
        by_cell.setdefault(int(c), []).append(t)
    tol = 1e-9 if model.derived_geometry else 0.0
    tri_rows = triangles.tolist()
    for n in range(size):
        tris = by_cell.get(n, [])
        if n in model.skip_cells:
            obs.cls('degenerate-derived-cell-not-asserted')
            continue
        mp = mpolys[n]
        if mp is None:
            obs.cls('hole-no-triangles')
            obs.evaluation()
            obs.expect(not tris, 'a cell without geometry produces no triangles',
                       lambda: {'n': n, 'native': model.native(model.default_kind, n), 'triangles': [tri_rows[t] for t in tris]}, mech='triangle-on-hole')
            continue
        ring = open_ring(model.cells[n])
        if n in repeated:
            # is a ring that names one point twice 3- or 4-sided?  the statement does not say: nothing asserted on this cell
            obs.cls('repeated-vertex-cell-not-asserted')
            continue
        obs.evaluation()
        inf = info[n] if info is not None else None
        tri_xy = [[rows[v] for v in tri_rows[t]] for t in tris]
        good, tri_pos = check_cell(obs, n, ring, mp, tri_xy, tol, exact, family, inf, model)
        obs.cls('sides:%d' % len(ring))
        if info is None and not is_convex(ring):
            obs.cls('cell:concave-in-generated-mesh')
        # evidence samples: one per category and shard
        if good and len(ring) >= 4:
            if inf is None:
                category = 'dataset-with-holes' if any(p is None for p in mpolys) and not is_convex(ring) else \
                    ('dataset-with-holes' if any(p is None for p in mpolys) and model.convention != 'ugrid' and n > 0 and mpolys[n - 1] is None else None)
            elif family == 'rotated-faces':
                category = 'rotated' if inf['lattice_collinear'] else None
            elif inf['collinear']:
                category = 'collinear'
            else:
                category = 'concave' if inf['concave'] and len(ring) >= 6 else None
            taken = obs.__dict__.setdefault('_c14_sampled', [])
            if category and category not in taken:
                taken.append(category)
                obs.sample({'family': family, 'linear index': n, 'shape': inf['label'] if inf else model.convention,
                            'winding': ('cw' if inf['cw'] else 'ccw') if inf else None, 'ring': ring,
                            'concave': inf['concave'] if inf else not is_convex(ring),
                            'exactly collinear vertices': inf['collinear'] if inf else None,
                            'triangles (positions in ring)': tri_pos,
                            'cells without geometry in dataset': sum(1 for p in mpolys if p is None)})


def check_cell(obs, n, ring, mp, tri_coords, tol, exact, family, inf, model):
    """All per-cell clauses of the statement; tri_coords = [[(x, y) * 3], ...] read from emsarray's result."""
    nv = len(ring)

    def ctx(**kw):
        d = {'n': n, 'family': family, 'ring': ring, 'triangles': tri_coords}
        if inf is not None:
            d.update({'shape': inf['label'], 'cw': inf['cw'], 'concave': inf['concave'], 'collinear': inf['collinear']})
        else:
            d['native'] = model.native(model.default_kind, n)
        d.update(kw)
        return d

    suffix = ':' + family if family in ('rotated-faces',) else ''
    if not obs.expect(len(tri_coords) == nv - 2, 'a cell with n vertices gets exactly n-2 triangles',
                      lambda: ctx(got=len(tri_coords), want=nv - 2), mech='triangle-count' + suffix):
        return False, None
    find = ring_position(ring, tol)
    tri_pos = []
    for tc in tri_coords:
        pos = [find(x, y) for x, y in tc]
        if not obs.expect(all(p is not None for p in pos), 'every triangle vertex is a vertex of the cell it names',
                          lambda: ctx(triangle=tc), mech='foreign-vertex' + suffix):
            return False, None
        tri_pos.append(pos)
    ering = ff.exact_ring(ring)
    cell_a2 = abs(ff.area2(ering))
    cell_area = mp.area
    total = Fraction(0)
    solid = []
    good = True
    for pos, tc in zip(tri_pos, tri_coords):
        tri = [ering[p] for p in pos]
        a2 = abs(ff.area2(tri))
        total += a2
        pts = [ring[p] for p in pos]
        if a2 == 0:
            # zero-area triangle: the statement does not exclude it by itself (see META assumptions)
            obs.cls('zero-area-triangle-seen')
            shape = MultiPoint(pts).convex_hull
            inside = mp.covers(shape)
        else:
            solid.append(tri)
            shape = Polygon(pts)
            inside = mp.covers(shape) or shape.difference(mp).area <= 1e-12 * cell_area
        good &= obs.expect(inside, 'every triangle lies inside its cell', lambda: ctx(triangle=pts, outside_area=shape.difference(mp).area),
                           mech='triangle-outside-cell' + suffix)
    for i in range(len(solid)):
        for j in range(i + 1, len(solid)):
            over = ff.triangles_overlap(solid[i], solid[j])
            if over and not exact:
                # float coordinates: confirm with the GEOS overlay and the same relative tolerance as the inside test
                a = Polygon([(float(x), float(y)) for x, y in solid[i]])
                b = Polygon([(float(x), float(y)) for x, y in solid[j]])
                over = a.intersection(b).area > 1e-12 * cell_area
            good &= obs.expect(not over, 'triangles of one cell do not overlap',
                               lambda: ctx(pair=[[(float(x), float(y)) for x, y in solid[i]], [(float(x), float(y)) for x, y in solid[j]]]),
                               mech='triangles-overlap' + suffix)
    if exact:
        same = total == cell_a2
    else:
        same = abs(total - cell_a2) <= Fraction(1, 10 ** 9) * cell_a2
    good &= obs.expect(same, 'triangle areas sum to the area of the cell',
                       lambda: ctx(sum=float(total) / 2, cell_area=float(cell_a2) / 2), mech='area-sum' + suffix)
    return good, tri_pos
