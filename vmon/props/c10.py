"""C10 - mesh topology is independent of encoding and internally consistent."""
import itertools

import numpy

from ..common import Failed, quiet_warnings
from ..geomgen import polygon_matches
from ..model.ugrid import OPTIONAL_TABLES, all_supplied_subsets, make_ugrid, random_mesh
from ..rng import gen

ANCHORS = [
    'emsarray.conventions.ugrid:Mesh2DTopology._to_index_array',
    'emsarray.conventions.ugrid:_get_start_index',
    'emsarray.conventions.ugrid:Mesh2DTopology.has_valid_edge_node_connectivity',
    'emsarray.conventions.ugrid:Mesh2DTopology.has_valid_edge_face_connectivity',
    'emsarray.conventions.ugrid:Mesh2DTopology.has_valid_face_edge_connectivity',
    'emsarray.conventions.ugrid:Mesh2DTopology.has_valid_face_face_connectivity',
    'emsarray.conventions.ugrid:Mesh2DTopology.make_edge_node_array',
    'emsarray.conventions.ugrid:Mesh2DTopology.make_face_edge_array',
    'emsarray.conventions.ugrid:Mesh2DTopology.make_edge_face_array',
    'emsarray.conventions.ugrid:Mesh2DTopology.make_face_face_array',
    'emsarray.conventions.ugrid:Mesh2DTopology._face_and_node_pair_iter',
    'emsarray.conventions.ugrid:Mesh2DTopology.face_dimension',
    'emsarray.conventions.ugrid:Mesh2DTopology.edge_dimension',
    'emsarray.conventions.ugrid:Mesh2DTopology.has_edge_dimension',
    'emsarray.conventions.ugrid:Mesh2DTopology.two_dimension',
    'emsarray.conventions.ugrid:Mesh2DTopology.face_node_array',
    'emsarray.conventions.ugrid:Mesh2DTopology.edge_node_array',
    'emsarray.conventions.ugrid:Mesh2DTopology.face_edge_array',
    'emsarray.conventions.ugrid:Mesh2DTopology.edge_face_array',
    'emsarray.conventions.ugrid:Mesh2DTopology.face_face_array',
]

START = ['absent', 0, 1, '1']
FILL = ['nan', 'int_fill', 'none']

META = {
    'rule': ('random meshes mixing 3..8-sided convex/concave faces (CW or CCW, rotated start node, shuffled node and face '
             'order), each encoded many times: start_index {absent,0,1,"1"} x fill {NaN float, integer+_FillValue, none needed} x '
             '{normal, transposed} x all 16 subsets of {edge_node, face_edge, edge_face, face_face} supplied (supplied edge '
             'tables in a random edge permutation with flipped pairs) x edge dimension declared/implied x coordinates as '
             'variables/xarray coordinates; quick = covering random sample per mesh, thorough = the full 1152-encoding product '
             'per mesh; every normalised table compared with the pure-python mesh model; distinct = (mesh, encoding)'),
    'min': {'evaluations': 3000, 'distinct': 800,
            'classes': {'start_index=1': 50, "start_index='1'": 50, 'fill=nan': 50, 'fill=int_fill': 50, 'transposed:face_node': 50,
                        'derived:edge_node': 50, 'derived:face_edge': 50, 'derived:edge_face': 50, 'derived:face_face': 50,
                        'supplied:edge_node': 50, 'supplied:face_edge': 50, 'supplied:edge_face': 50, 'supplied:face_face': 50,
                        'coords-as-coordinates': 50, 'mesh:has-concave-face': 5, 'mesh:mixed-face-sizes': 10}},
    'must_reach': ['emsarray.conventions.ugrid:Mesh2DTopology._to_index_array',
                   'emsarray.conventions.ugrid:Mesh2DTopology.make_edge_node_array',
                   'emsarray.conventions.ugrid:Mesh2DTopology.make_face_edge_array',
                   'emsarray.conventions.ugrid:Mesh2DTopology.make_edge_face_array',
                   'emsarray.conventions.ugrid:Mesh2DTopology.make_face_face_array'],
    'assumptions': ['a transposed table comes with the *_dimension attribute the UGRID conventions require for it',
                    'a face-edge table without any edge-node/edge-face table comes with a declared edge dimension',
                    'when edge_node is not supplied while face_edge / edge_face are, the file fixes no relation between the '
                    'supplied edge numbering and the derived one: only "used as given" and consistency among tables sharing a '
                    'numbering are asserted'],
}


def rows_of(arr):
    """masked 2-D int array -> list of lists of unmasked ints (row order kept)."""
    out = []
    mask = numpy.ma.getmaskarray(arr)
    data = numpy.ma.getdata(arr)
    for r in range(arr.shape[0]):
        out.append([int(v) for v, m in zip(data[r], mask[r]) if not m])
    return out


def prefix_ok(arr):
    """unmasked entries must be a prefix of every row (missing entries written at the end)."""
    mask = numpy.ma.getmaskarray(arr)
    for r in range(arr.shape[0]):
        seen_masked = False
        for m in mask[r]:
            if m:
                seen_masked = True
            elif seen_masked:
                return False
    return True


def nan_equal_arrays(a, b):
    a, b = numpy.asarray(a), numpy.asarray(b)
    if a.shape != b.shape:
        return False
    if a.dtype.kind in 'fc' and b.dtype.kind in 'fc':
        return bool(numpy.array_equal(a, b, equal_nan=True))
    return bool(numpy.array_equal(a, b))


def _perm(model, n):
    """Deterministic pseudo-random touch order derived from the encoding (no extra rng stream needed)."""
    import hashlib
    h = hashlib.sha256(repr(sorted(model.encoding['supplied'])).encode() + repr(model.encoding['edge_flip']).encode()).digest()
    order = list(range(n))
    for i in range(n - 1, 0, -1):
        j = h[i] % (i + 1)
        order[i], order[j] = order[j], order[i]
    return order


def run(ctx):
    obs = ctx.obs
    obs.extra['meta'] = META
    n_mesh = ctx.n(96, 480)
    for case, rng in ctx.cases(n_mesh):
        spec = {'case': case}
        ctx.run_case(spec, one_mesh, obs, rng, case, spec, ctx)
    # scale: one mesh with more than 46 341 nodes (node-pair keys no longer fit 32 bits), every table derived
    case = n_mesh
    if (ctx.only_case is None and case % ctx.nshards == ctx.shard) or ctx.only_case == case:
        spec = {'case': case, 'large': True}
        ctx.run_case(spec, large_mesh, obs, gen(ctx.seed, 'C10', case, 'large'), case, spec)


def large_mesh(obs, rng, case, spec):
    from ..model.ugrid import Mesh
    n = 218 + int(rng.integers(0, 6))
    node = lambda j, i: j * (n + 1) + i   # noqa: E731
    faces = [[node(j, i), node(j, i + 1), node(j + 1, i + 1), node(j + 1, i)] for j in range(n) for i in range(n)]
    total = (n + 1) ** 2
    xs = numpy.array([100 + 0.01 * (k % (n + 1)) for k in range(total)])
    ys = numpy.array([-30 + 0.01 * (k // (n + 1)) for k in range(total)])
    mesh = Mesh(faces, xs, ys)
    spec['mesh'] = {'faces': mesh.nface, 'nodes': mesh.nnode, 'edges': mesh.nedge}
    obs.cls('mesh:more-than-46341-nodes')
    enc = dict(supplied=(), declare_edge_dim=True, start_index=int(rng.integers(0, 2)), fill='none', transposed=False,
               coord_style='var', uniform_tables=True, permute_edges=False, face_coords=False, edge_coords=True)
    spec['encoding'] = {k: (list(v) if isinstance(v, tuple) else v) for k, v in enc.items()}
    one_encoding(obs, rng, mesh, 'ccw', enc, case, 0)


def encodings(ctx, rng):
    if ctx.thorough:
        # every combination for a quarter of the meshes is too slow; the full product is walked per mesh but the
        # per-table knobs are kept uniform (one start_index / fill / orientation for all tables of the file)
        for start, fill, tr, sup, decl, cs in itertools.product(START, FILL, [False, True], all_supplied_subsets(),
                                                                 [False, True], ['var', 'coord']):
            yield dict(start_index=start, fill=fill, transposed=tr, supplied=sup, declare_edge_dim=decl, coord_style=cs, uniform_tables=True)
    else:
        subsets = all_supplied_subsets()
        order = [subsets[i] for i in rng.permutation(len(subsets))]
        for i in range(48):
            yield dict(start_index=START[i % 4] if i < 32 else None, fill=FILL[(i // 4) % 3] if i < 32 else None,
                       transposed=[False, True][(i // 2) % 2] if i < 32 else None, supplied=order[i % 16],
                       declare_edge_dim=bool((i // 16) % 2) if i < 32 else None, coord_style=['var', 'coord'][i % 2],
                       uniform_tables=i < 32)


def one_mesh(obs, rng, case, spec, ctx):
    mesh, winding = random_mesh(rng, maxn=4)
    sizes = sorted({len(f) for f in mesh.faces})
    if len(sizes) > 1:
        obs.cls('mesh:mixed-face-sizes')
    from ..model.ugrid import is_convex
    if any(not is_convex(mesh.ring(f)) for f in range(mesh.nface)):
        obs.cls('mesh:has-concave-face')
    spec['mesh'] = {'faces': mesh.nface, 'nodes': mesh.nnode, 'edges': mesh.nedge, 'sizes': sizes, 'winding': winding}
    for k, enc in enumerate(encodings(ctx, rng)):
        erng = gen(ctx.seed, 'C10', case, 'enc%d' % k)
        spec['encoding'] = {kk: (list(v) if isinstance(v, tuple) else v) for kk, v in enc.items()}
        spec['encoding_no'] = k
        one_encoding(obs, erng, mesh, winding, enc, case, k)


def one_encoding(obs, erng, mesh, winding, enc, case, k):
    kw = dict(enc)
    if kw.get('start_index') is None:
        kw.pop('start_index')
    model = make_ugrid(erng, mesh=mesh, winding=winding, **{kk: v for kk, v in kw.items() if v is not None or kk in ()})
    e = model.encoding
    ds = model.encode()
    obs.sig(case, k, repr(sorted(e['supplied'])), repr(sorted((t, sorted((a, repr(b)) for a, b in v.items())) for t, v in e['tables'].items())),
            e['declare_edge_dim'], e['coord_style'])
    supplied = set(e['supplied'])
    with quiet_warnings() as log:
        ems = obs.call('dataset.ems', lambda: ds.ems)
        if isinstance(ems, Failed):
            return
        topo = obs.call('topology', lambda: ems.topology)
        if isinstance(topo, Failed):
            return
        _check(obs, model, mesh, ems, topo, supplied, e)
    # a string-typed start_index is accepted but must be warned about
    strs = [t for t in ('face_node',) + OPTIONAL_TABLES if (t == 'face_node' or t in supplied) and isinstance(e['tables'][t]['start_index'], str)]
    if strs:
        obs.expect(any('start index' in str(w.message) for w in log), 'string-typed start_index accepted with a warning', mech='no-warning')


def _check(obs, model, mesh, ems, topo, supplied, e):
    t = e['tables']
    for key in ('face_node',) + tuple(sorted(supplied)):
        si = t[key]['start_index']
        obs.cls('start_index=%r' % (si,) if si is not None else 'start_index=absent')
        obs.cls('fill=' + t[key].get('fill_effective', t[key]['fill']))
        if t[key]['transposed']:
            obs.cls('transposed:' + key)
    if e['coord_style'] == 'coord':
        obs.cls('coords-as-coordinates')
    for key in OPTIONAL_TABLES:
        obs.cls(('supplied:' if key in supplied else 'derived:') + key)

    # ---- dimensions, counts, kinds -------------------------------------------------------------------------
    obs.expect_equal(obs.call('face_dimension', lambda: topo.face_dimension), e['face_dim'], 'face dimension')
    obs.expect_equal(obs.call('node_dimension', lambda: topo.node_dimension), e['node_dim'], 'node dimension')
    obs.expect_equal(obs.call('max_node_dimension', lambda: topo.max_node_dimension), e['max_dim'], 'max node dimension')
    obs.expect_equal(obs.call('counts', lambda: (topo.face_count, topo.node_count, topo.max_node_count)),
                     (mesh.nface, mesh.nnode, mesh.max_nodes + e.get('extra_width', 0)), 'face / node / max-node counts (the table width as stored)')
    has_edge = obs.call('has_edge_dimension', lambda: bool(topo.has_edge_dimension))
    obs.expect_equal(has_edge, model.has_edges, 'edge dimension present iff declared or implied')
    kinds = obs.call('grid_kinds', lambda: sorted(str(k.value) for k in ems.grid_kinds))
    obs.expect_equal(kinds, sorted(model.kinds), 'grid kinds')
    if model.has_edges:
        obs.expect_equal(obs.call('edge_dimension', lambda: topo.edge_dimension), e['edge_dim'], 'edge dimension')
        obs.expect_equal(obs.call('edge_count', lambda: topo.edge_count), mesh.nedge, 'edge count')
    for key in OPTIONAL_TABLES:
        flag = obs.call('has_valid_%s_connectivity' % key, lambda key=key: bool(getattr(topo, 'has_valid_%s_connectivity' % key)))
        obs.expect_equal(flag, key in supplied, 'has_valid_%s_connectivity is True iff the table is supplied' % key)

    # ---- face-node: identical whatever the encoding --------------------------------------------------------------
    fn = obs.call('face_node_array', lambda: topo.face_node_array)
    if isinstance(fn, Failed):
        return
    ok = obs.expect(fn.shape == (mesh.nface, mesh.max_nodes + e.get('extra_width', 0)) and rows_of(fn) == mesh.faces and prefix_ok(fn)
                    and numpy.issubdtype(numpy.ma.getdata(fn).dtype, numpy.integer),
                    'normalised face-node table is identical for every encoding (zero-based, masked where no node)',
                    lambda: {'got': rows_of(fn), 'want': mesh.faces, 'shape': fn.shape}, mech='face-node-normalisation')
    # ---- polygons identical across encodings ----------------------------------------------------------------------------
    polys = obs.call('polygons', lambda: ems.polygons)
    if not isinstance(polys, Failed):
        obs.expect(len(polys) == mesh.nface and all(polygon_matches(polys[f], mesh.ring(f), same_start=False) for f in range(mesh.nface)),
                   'polygons are the faces\' nodes in listed order, identical across encodings', mech='polygons-differ')
    if not ok or not model.has_edges:
        if not model.has_edges:
            obs.cls('no-edge-dimension:derived-tables-not-asserted')
            if 'face_face' in supplied:
                ff = obs.call('face_face_array', lambda: topo.face_face_array)
                if not isinstance(ff, Failed):
                    obs.expect(rows_of(ff) == model.s_face_faces, 'supplied face-face table used as given', mech='supplied-not-used')
        return

    pairs_model = {frozenset(p) for p in mesh.edges}
    # The tables are first touched in a random order (each derivation may pull in the others), and read again at the
    # end: a supplied table must still be as given after other tables were derived from it, and the dataset itself
    # must not have been modified.
    names = ['edge_node_array', 'face_edge_array', 'edge_face_array', 'face_face_array']
    snapshot = {str(k): numpy.array(v.values, copy=True) for k, v in ems.dataset.variables.items()}
    order = [names[i] for i in _perm(model, len(names))]
    for nm in order:
        r = obs.call(nm + ' (first touch)', lambda nm=nm: getattr(topo, nm))
        if isinstance(r, Failed):
            return
    first = {nm: rows_of(getattr(topo, nm)) for nm in names}
    # ---- edge-node ---------------------------------------------------------------------------------------------
    en = obs.call('edge_node_array', lambda: topo.edge_node_array)
    if isinstance(en, Failed):
        return
    en_rows = rows_of(en)
    if 'edge_node' in supplied:
        want = [list(p) if not flip else [p[1], p[0]] for p, flip in zip(model.s_edges, e['edge_flip'])]
        good = obs.expect(en_rows == want, 'supplied edge-node table used as given (order and orientation)',
                          lambda: {'got': en_rows[:6], 'want': want[:6]}, mech='supplied-not-used')
    else:
        good = obs.expect(len(en_rows) == mesh.nedge and all(len(r) == 2 for r in en_rows)
                          and {frozenset(r) for r in en_rows} == pairs_model and len({frozenset(r) for r in en_rows}) == len(en_rows),
                          'derived edge-node rows are exactly the unordered node pairs of the faces, each once',
                          lambda: {'got': en_rows, 'want': sorted(map(sorted, pairs_model))}, mech='derived-edge-node')
    if not good:
        return
    number_en = {frozenset(r): i for i, r in enumerate(en_rows)}      # numbering emsarray uses for derived tables

    # ---- face-edge ---------------------------------------------------------------------------------------------
    fe = obs.call('face_edge_array', lambda: topo.face_edge_array)
    if isinstance(fe, Failed):
        return
    fe_rows = rows_of(fe)
    if 'face_edge' in supplied:
        good = obs.expect(fe_rows == model.s_face_edges and prefix_ok(fe), 'supplied face-edge table used as given',
                          lambda: {'got': fe_rows[:4], 'want': model.s_face_edges[:4]}, mech='supplied-not-used')
        fe_numbering = 'supplied'
    else:
        want = [[number_en[frozenset(p)] for p in mesh.pairs(f)] for f in mesh.faces]
        good = obs.expect(fe_rows == want and prefix_ok(fe), 'derived face-edge: entry c is the edge joining nodes c and c+1 of the face',
                          lambda: {'got': fe_rows[:4], 'want': want[:4]}, mech='derived-face-edge')
        fe_numbering = 'edge_node'
    if not good:
        return
    # ---- edge-face -----------------------------------------------------------------------------------------------
    ef = obs.call('edge_face_array', lambda: topo.edge_face_array)
    if isinstance(ef, Failed):
        return
    ef_rows = rows_of(ef)
    if 'edge_face' in supplied:
        good = obs.expect(ef_rows == model.s_edge_faces, 'supplied edge-face table used as given',
                          lambda: {'got': ef_rows[:6], 'want': model.s_edge_faces[:6]}, mech='supplied-not-used')
    else:
        # built from the face-edge table emsarray uses: an edge lists exactly the faces that contain it
        want = [set() for _ in range(mesh.nedge)]
        for f, row in enumerate(fe_rows):
            for ed in row:
                want[ed].add(f)
        got = [set(r) for r in ef_rows]
        truth = None
        if fe_numbering == 'edge_node':
            truth = [set(mesh.edge_faces[mesh.edge_index[frozenset(r)]]) for r in en_rows]
        elif 'edge_node' in supplied or True:
            truth = [set(x) for x in model.s_edge_faces] if fe_numbering == 'supplied' else None
        good = obs.expect(ef.shape == (mesh.nedge, 2) and got == want and all(len(r) == len(set(r)) for r in ef_rows)
                          and (truth is None or got == truth),
                          'derived edge-face: an edge lists exactly the faces that contain it',
                          lambda: {'got': ef_rows[:8], 'want': [sorted(w) for w in want[:8]]}, mech='derived-edge-face')
    if not good:
        return
    # ---- face-face -------------------------------------------------------------------------------------------------
    ff = obs.call('face_face_array', lambda: topo.face_face_array)
    if isinstance(ff, Failed):
        return
    ff_rows = rows_of(ff)
    if 'face_face' in supplied:
        obs.expect(ff_rows == model.s_face_faces, 'supplied face-face table used as given',
                   lambda: {'got': ff_rows[:6], 'want': model.s_face_faces[:6]}, mech='supplied-not-used')
    else:
        got = [set(r) for r in ff_rows]
        sym = all((a in got[b]) for a in range(len(got)) for b in got[a])
        obs.expect(got == mesh.face_faces and sym and prefix_ok(ff),    # a neighbour may be listed once per shared edge
                   'derived face-face: symmetric, and adjacency means sharing an edge',
                   lambda: {'got': ff_rows[:8], 'want': [sorted(s) for s in mesh.face_faces[:8]]}, mech='derived-face-face')
    # ---- stability: nothing changed behind our back -------------------------------------------------------------------
    again = {nm: rows_of(getattr(topo, nm)) for nm in names}
    obs.expect(again == first, 'normalised tables are stable: reading a table again after the others were derived gives the same rows',
               lambda: {'changed': [nm for nm in names if again[nm] != first[nm]], 'touch order': order}, mech='table-mutated')
    same_ds = all(nan_equal_arrays(snapshot[str(k)], v.values) for k, v in ems.dataset.variables.items())
    obs.expect(same_ds, 'deriving topology tables does not modify the dataset', mech='dataset-mutated')
    if len(obs.samples) < 3 and len(supplied) in (1, 2):
        obs.sample({'mesh': {'faces': mesh.faces[:5], 'nedge': mesh.nedge}, 'supplied': sorted(supplied),
                    'face_node encoding': t['face_node'], 'edge_node_array[:4]': en_rows[:4], 'face_edge_array[:3]': fe_rows[:3],
                    'edge_face_array[:4]': ef_rows[:4], 'face_face_array[:3]': ff_rows[:3]})
