"""C07 - clip masks select exactly the intersecting cells plus the requested buffer."""
import itertools
import math

import numpy
import shapely

from .. import contracts
from ..common import Failed, quiet_warnings
from ..geomgen import brute_hits, clip_geometries
from ..model import CONVENTIONS, make
from ..oracles.points import oracle_polygons
from .c10 import rows_of

ANCHORS = [
    'emsarray.conventions.grid:CFGrid.make_clip_mask',
    'emsarray.conventions.arakawa_c:ArakawaC.make_clip_mask',
    'emsarray.conventions.arakawa_c:c_mask_from_centres',
    'emsarray.conventions.ugrid:UGrid.make_clip_mask',
    'emsarray.conventions.ugrid:buffer_faces',
    'emsarray.conventions.ugrid:mask_from_face_indexes',
    'emsarray.masking:blur_mask',
    'emsarray.masking:smear_mask',
]

SHAPES = [(a, b) for a in range(1, 5) for b in range(1, 5)]


def units(thorough):
    """Work units of the primitive sweep: (shape, block) where a block is a slice of the 2**(a*b) arrays."""
    out = []
    for shape in SHAPES:
        n = 2 ** (shape[0] * shape[1])
        if not thorough and shape[0] * shape[1] > 9:
            continue
        block = 1024
        for start in range(0, n, block):
            out.append((shape, start, min(n, start + block)))
    return out


META = {
    'rule': ('(i) primitives: EVERY boolean array of every shape <= 4x4 (thorough; quick: every array of <= 9 elements plus 4000 '
             'random larger ones) through blur_mask (size 0..3), smear_mask (4 axis choices) and c_mask_from_centres, each checked by '
             'an in-situ post-condition against loop references (Chebyshev dilation, "belongs to >= 1 marked face"); '
             '(ii) end to end: make_clip_mask(geometry, buffer 0..3) on generated datasets of all conventions x clip geometries '
             '(boxes, covering, border-hugging, slivers, convex/concave polygons, multi-part, lines, points, touching at a vertex / '
             'edge, single cell) vs brute-force GEOS intersects + own dilation / node-sharing rings / rank renumbering; monotonicity on '
             'pairs with nested brute-force sets; distinct = (convention, shape, holes, geometry class+wkt hash, buffer)'),
    'min': {'evaluations': 2000, 'distinct': 400,
            'classes': {'geom:touch_vertex': 10, 'geom:touch_edge': 10, 'geom:cover_all': 10, 'geom:hug_border': 10, 'geom:line': 10,
                        'geom:point': 10, 'geom:multi': 10, 'buffer=0': 50, 'buffer=1': 50, 'buffer=2': 50, 'buffer=3': 50,
                        'mask:grid': 100, 'mask:arakawa': 50, 'mask:mesh': 50, 'mesh:with-edges': 20, 'monotone-pairs': 100},
            'contracts': {'blur_mask': 2000, 'smear_mask': 2000, 'c_mask_from_centres': 500, 'buffer_faces': 30,
                          'mask_from_face_indexes': 50}},
    'must_reach': ['emsarray.conventions.grid:CFGrid.make_clip_mask', 'emsarray.conventions.arakawa_c:ArakawaC.make_clip_mask',
                   'emsarray.conventions.ugrid:UGrid.make_clip_mask', 'emsarray.masking:blur_mask', 'emsarray.masking:smear_mask'],
    'assumptions': ['GEOS intersects decides both sides (touching counts)', 'polygon fidelity is C06; mesh table normalisation is C10'],
    'exhaustive_total_thorough': len(units(True)),
}


def run(ctx):
    obs = ctx.obs
    meta = dict(META)
    obs.extra['meta'] = meta
    from ..model import set_cell_scale_varies
    set_cell_scale_varies(True)            # some datasets are 100 m / 5 m models expressed in degrees
    contracts.attach_all(obs, only={'blur_mask', 'smear_mask', 'c_mask_from_centres', 'buffer_faces', 'mask_from_face_indexes'})
    primitives(ctx, obs)
    if ctx.thorough and ctx.shard == 0 and ctx.only_case is None:
        from ..suite_contracts import run_repo_suite_with_contracts
        run_repo_suite_with_contracts(obs, only='blur_mask,smear_mask,c_mask_from_centres,buffer_faces,mask_from_face_indexes')
    total = ctx.n(320, 40000)
    for case, rng in ctx.cases(total, stream='e2e'):
        conv = CONVENTIONS[case % len(CONVENTIONS)]
        spec = {'case': case, 'convention': conv, 'part': 'end-to-end'}
        ctx.run_case(spec, one_dataset, obs, rng, conv, spec)


# --------------------------------------------------------------------------------------------------------------
# (i) primitives; the attached contracts are the oracle
# --------------------------------------------------------------------------------------------------------------

def primitives(ctx, obs):
    import emsarray.masking as masking
    import emsarray.conventions.arakawa_c as arakawa_c
    from emsarray.conventions.arakawa_c import ArakawaCGridKind as K
    dims = {K.face: ('jf', 'if'), K.left: ('jl', 'il'), K.back: ('jb', 'ib'), K.node: ('jn', 'in')}
    work = units(ctx.thorough)
    done = 0

    def drive(arr):
        for size in range(4):
            obs.call('blur_mask', masking.blur_mask, arr, size=size)
        obs.call('blur_mask (documented default size 1)', masking.blur_mask, arr)
        if arr.ndim == 2 and min(arr.shape) >= 2:
            # the same boolean array in another memory layout is the same array
            obs.call('blur_mask (column-major input)', masking.blur_mask, numpy.asfortranarray(arr), size=1 + (int(arr.sum()) % 2))
            obs.call('blur_mask (strided input)', masking.blur_mask, numpy.repeat(arr, 2, axis=1)[:, ::2], size=1)
            obs.call('smear_mask (column-major input)', masking.smear_mask, numpy.asfortranarray(arr), [True, True])
        for pad in ([False, False], [False, True], [True, False], [True, True]):
            obs.call('smear_mask', masking.smear_mask, arr, pad)
        obs.call('c_mask_from_centres', arakawa_c.c_mask_from_centres, arr, dims, None)

    for idx, (shape, start, stop) in enumerate(work):
        if ctx.only_case is not None or idx % ctx.nshards != ctx.shard:
            continue
        obs.begin_case({'case': -1, 'part': 'primitives', 'shape': shape, 'block': [start, stop]})
        try:
            nbits = shape[0] * shape[1]
            for code in range(start, stop):
                bits = [(code >> k) & 1 for k in range(nbits)]
                arr = numpy.array(bits, dtype=bool).reshape(shape)
                drive(arr)
                if code % 257 == 0:
                    obs.sig('prim', shape, code)
            done += 1
        except Exception as exc:  # noqa: BLE001
            obs.harness_error('primitives', exc)
    obs.extra['exhaustive_units_done'] = done
    obs.extra['exhaustive_units_total_per_run'] = len(work) if ctx.shard == 0 else 0
    if not ctx.thorough and ctx.only_case is None:
        from ..rng import gen
        rng = gen(ctx.seed, 'C07', ctx.shard, 'prim-random')
        obs.begin_case({'case': -1, 'part': 'primitives-random', 'shard': ctx.shard})
        for _ in range(4000 // ctx.nshards + 1):
            shape = [(3, 4), (4, 3), (4, 4), (2, 5), (5, 2), (1, 6)][int(rng.integers(6))]
            arr = rng.random(shape) < rng.choice([0.1, 0.3, 0.6])
            drive(arr)
    if len(obs.samples) < 1 and ctx.shard == 0:
        a = numpy.array([[1, 0, 0, 0], [0, 0, 0, 1], [0, 0, 0, 0]], dtype=bool)
        obs.sample({'primitive': 'blur_mask', 'arr': a.astype(int), 'size': 1, 'result': masking.blur_mask(a, 1).astype(int)})


# --------------------------------------------------------------------------------------------------------------
# (ii) end to end
# --------------------------------------------------------------------------------------------------------------

def dilate(mask2d, b):
    nj, ni = mask2d.shape
    out = numpy.zeros_like(mask2d)
    for j in range(nj):
        for i in range(ni):
            hit = False
            for jj in range(max(0, j - b), min(nj, j + b + 1)):
                for ii in range(max(0, i - b), min(ni, i + b + 1)):
                    if mask2d[jj, ii]:
                        hit = True
            out[j, i] = hit
    return out


def one_dataset(obs, rng, conv, spec):
    if conv == 'ugrid' and rng.random() < 0.2:
        # one-based tables whose "no element" number is 0, kept as plain integers with a _FillValue attribute (built in
        # memory / opened without masking): under the mask sits a number that is a valid node once the base is removed
        model = make(rng, conv, start_index=1, fill='int_fill')
        for table in model.encoding['tables'].values():
            table['fill_value'] = 0
            table.pop('fill_tight', None)
        obs.cls('ugrid:one-based-tables-with-fill-value-0')
    else:
        model = make(rng, conv)
    ds = model.encode()
    with quiet_warnings():
        ems = obs.call('dataset.ems', lambda: ds.ems)
        if isinstance(ems, Failed):
            return
        epolys = obs.call('polygons', lambda: ems.polygons)
    if isinstance(epolys, Failed):
        return
    spec['model'] = model.describe()
    polys = oracle_polygons(obs, model, epolys)
    if polys is None or not any(p is not None for p in polys):
        return
    if model.skip_cells:
        obs.cls('dataset-with-degenerate-derived-cells-skipped')
        return
    geoms = clip_geometries(model, rng, 6)
    face = model.kinds['face']
    results = {}
    for g, gcls in geoms:
        s0 = brute_hits(polys, g)
        for b in [int(v) for v in rng.choice(4, size=2, replace=False)]:
            obs.cls('geom:' + gcls)
            obs.cls('buffer=%d' % b)
            with quiet_warnings():
                if b == 0 and rng.random() < 0.5:
                    obs.cls('buffer-argument-omitted')
                    mask = obs.call('make_clip_mask (no buffer argument)', ems.make_clip_mask, g)      # documented default: no buffer
                else:
                    mask = obs.call('make_clip_mask', ems.make_clip_mask, g, buffer=b)
            if isinstance(mask, Failed):
                continue
            obs.sig(conv, face.shape, model.describe()['holes'], gcls, hash(g.wkt), b)
            marked = check_mask(obs, model, ems, mask, s0, b, g, gcls)
            if marked is not None:
                results[(id(g), b)] = (set(s0), marked, b)
                if len(obs.samples) < 4 and 0 < len(s0) < face.size and b == 1:
                    obs.sample({'convention': conv, 'shape': face.shape, 'geometry': gcls, 'wkt': g.wkt[:120], 'buffer': b,
                                'intersecting cells (brute force)': s0, 'marked faces': sorted(marked['face'])})
    # monotonicity on emsarray's own outputs, for pairs whose brute-force sets are nested
    keys = list(results)
    for a, c in itertools.combinations(keys, 2):
        for p, q in ((a, c), (c, a)):
            s0p, mp, bp = results[p]
            s0q, mq, bq = results[q]
            if s0p <= s0q and bp <= bq:
                obs.cls('monotone-pairs')
                obs.expect(all(mp[k] <= mq[k] for k in mp if k in mq), 'enlarging the geometry or the buffer never unmarks an element',
                           lambda: {'small': {k: sorted(v) for k, v in mp.items()}, 'large': {k: sorted(v) for k, v in mq.items()}},
                           mech='not-monotone')


def check_mask(obs, model, ems, mask, s0, b, g, gcls):
    """Compare one mask dataset with the oracle; returns {'face': set, ...} of marked elements as emsarray reports them."""
    conv = model.convention
    face = model.kinds['face']
    detail = lambda extra: (lambda: dict({'geometry': gcls, 'wkt': g.wkt[:200], 'buffer': b, 's0': s0}, **extra))   # noqa: E731
    if conv in ('cf1d', 'cf2d', 'shoc_simple', 'shoc_standard'):
        m0 = numpy.zeros(face.shape, dtype=bool)
        for n in s0:
            m0[face.multi(n)] = True
        want = dilate(m0, b)
        name = 'cell_mask' if conv != 'shoc_standard' else 'face_mask'
        if not obs.expect(name in mask.data_vars, 'mask dataset has ' + name):
            return None
        got = mask[name]
        ok = obs.expect(tuple(got.dims) == face.dims and got.shape == want.shape and bool(numpy.array_equal(got.values.astype(bool), want)),
                        'clip mask == intersecting cells dilated by `buffer` rings in all eight directions',
                        detail({'got': got.values.astype(int), 'want': want.astype(int)}), mech='grid-mask-wrong')
        marked = {'face': {face.linear(idx) for idx in zip(*numpy.nonzero(got.values))}}
        if conv != 'shoc_standard':
            obs.cls('mask:grid')
            return marked if ok else None
        obs.cls('mask:arakawa')
        nj, ni = face.shape

        def f(j, i):
            return 0 <= j < nj and 0 <= i < ni and bool(want[j, i])
        wants = {
            'left_mask': numpy.array([[f(j, i - 1) or f(j, i) for i in range(ni + 1)] for j in range(nj)], dtype=bool).reshape(nj, ni + 1),
            'back_mask': numpy.array([[f(j - 1, i) or f(j, i) for i in range(ni)] for j in range(nj + 1)], dtype=bool).reshape(nj + 1, ni),
            'node_mask': numpy.array([[f(j - 1, i - 1) or f(j - 1, i) or f(j, i - 1) or f(j, i) for i in range(ni + 1)] for j in range(nj + 1)], dtype=bool),
        }
        for mname, w in wants.items():
            kname = mname.split('_')[0]
            if not obs.expect(mname in mask.data_vars, 'mask dataset has ' + mname):
                ok = False
                continue
            gm = mask[mname]
            ok = obs.expect(tuple(gm.dims) == model.kinds[kname].dims and bool(numpy.array_equal(gm.values.astype(bool), w)),
                            '%s marks exactly the %ss of marked faces' % (mname, kname),
                            detail({'got': gm.values.astype(int), 'want': w.astype(int)}), mech='arakawa-mask-wrong') and ok
            marked[kname] = {model.kinds[kname].linear(idx) for idx in zip(*numpy.nonzero(gm.values))}
        return marked if ok else None
    # ---- meshes ------------------------------------------------------------------------------------------------
    obs.cls('mask:mesh')
    mesh = model.mesh
    keep = set(s0)
    for _ in range(b):
        nodes = {nd for fidx in keep for nd in mesh.faces[fidx]}
        keep = {fidx for fidx in range(mesh.nface) if fidx in keep or (set(mesh.faces[fidx]) & nodes)}
    kept_nodes = sorted({nd for fidx in keep for nd in mesh.faces[fidx]})
    ok = True
    marked = {}

    def rank_table(count, kept):
        kept = sorted(kept)
        table = [math.nan] * count
        for new, old in enumerate(kept):
            table[old] = float(new)
        return table

    def compare(name, count, kept, kind):
        nonlocal ok
        if not obs.expect(name in mask.data_vars, 'mask dataset has ' + name):
            ok = False
            return
        vals = numpy.asarray(mask[name].values, dtype=float)
        want = rank_table(count, kept)
        same = vals.shape == (count,) and all((math.isnan(a) and math.isnan(w)) or a == w for a, w in zip(vals, want))
        ok = obs.expect(same, '%s: kept %ss renumbered contiguously in their original order, others missing' % (name, kind),
                        detail({'got': vals, 'want': want}), mech='mesh-mask-wrong') and ok
        marked[kind] = {i for i in range(len(vals)) if not math.isnan(vals[i])}

    compare('new_face_index', mesh.nface, keep, 'face')
    compare('new_node_index', mesh.nnode, kept_nodes, 'node')
    if model.has_edges:
        obs.cls('mesh:with-edges')
        if 'face_edge' in model.encoding['supplied']:
            fe = model.s_face_edges
        else:
            if 'edge_node' in model.encoding['supplied']:
                en = [list(r) for r in model.s_edges]              # the file's own edge numbering is the one that counts
            else:
                en = obs.call('edge_node_array', lambda: rows_of(ems.topology.edge_node_array))
                if isinstance(en, Failed):
                    return None
            number = {frozenset(r): i for i, r in enumerate(en)}
            fe = [[number[frozenset(p)] for p in mesh.pairs(fc)] for fc in mesh.faces]
        kept_edges = {ed for fidx in keep for ed in fe[fidx]}
        compare('new_edge_index', mesh.nedge, kept_edges, 'edge')
    else:
        ok = obs.expect('new_edge_index' not in mask.data_vars, 'no edge table in the mask of a mesh without edge dimension') and ok
    return marked if ok else None
