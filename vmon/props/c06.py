"""C06 - cell polygons and dataset extent are faithful to the dataset's coordinates."""
import re

import numpy

import shapely
from shapely.geometry import box

from .. import contracts
from ..common import Failed, quiet_warnings
from ..geomgen import model_polygons, polygon_matches
from ..model import CONVENTIONS, make

ANCHORS = [
    'emsarray.conventions.grid:CFGrid1DTopology._get_or_make_bounds',
    'emsarray.conventions.grid:CFGrid1D._make_polygons',
    'emsarray.conventions.grid:CFGrid2DTopology._get_or_make_bounds',
    'emsarray.conventions.grid:CFGrid2D._make_polygons',
    'emsarray.conventions.arakawa_c:ArakawaC._make_polygons',
    'emsarray.conventions.ugrid:Mesh2DTopology._to_index_array',
    'emsarray.conventions.ugrid:Mesh2DTopology.face_node_array',
    'emsarray.conventions.ugrid:UGrid._make_polygons',
    'emsarray.utils:make_polygons_with_holes',
    'emsarray.conventions._base:Convention.polygons',
    'emsarray.conventions._base:Convention.mask',
    'emsarray.conventions._base:Convention.geometry',
    'emsarray.conventions._base:Convention.bounds',
    'emsarray.conventions.grid:CFGrid.bounds',
    'emsarray.conventions.grid:CFGrid1D.geometry',
    'emsarray.conventions.ugrid:UGrid.bounds',
]

META = {
    'rule': ('bare geometry datasets of all conventions in every coordinate layout of the generators: 1-D axes ascending / '
             'descending / non-uniform with stored (contiguous, off-midpoint) or derived bounds, bounds as variable or '
             'coordinate, lat/lon identified by units / standard_name / axis, as coordinates or plain variables; curvilinear '
             'grids affine / radial with stored or synthesised bounds and hole patterns, optional bow-tie cell; node grids with '
             'masked regions; meshes with 3..8-sided faces in all index/fill/orientation encodings; every cell compared with the '
             'model ring; extent compared with bbox / union of the model polygons; distinct = (convention, encoding knobs, shape, holes)'),
    'min': {'evaluations': 1500, 'distinct': 200,
            'classes': {'cf1d:bounds=none': 5, 'cf1d:bounds=var': 5, 'cf1d:bounds=coord': 5, 'cf2d:bounds=none': 5,
                        'cf2d:bounds=var': 5, 'cf2d:bounds=coord': 3, 'cell:hole': 200, 'cell:polygon': 2000,
                        'bowtie:dropped-with-warning': 3, 'extent:checked': 100, 'ugrid:hanging-node-mesh': 5, 'ugrid:coords-as-coordinates': 5}},
    'must_reach': ['emsarray.conventions.grid:CFGrid1DTopology._get_or_make_bounds',
                   'emsarray.conventions.grid:CFGrid2DTopology._get_or_make_bounds',
                   'emsarray.conventions.arakawa_c:ArakawaC._make_polygons', 'emsarray.conventions.ugrid:UGrid._make_polygons',
                   'emsarray.conventions._base:Convention.geometry', 'emsarray.conventions.grid:CFGrid.bounds',
                   'emsarray.conventions.ugrid:UGrid.bounds'],
    'assumptions': ['stored 1-D bounds are contiguous; invalid (bow-tie) cells are interior; meshes have no orphan nodes',
                    'rings compared modulo start vertex and direction; derived geometry within 1e-9; GEOS validity / union trusted'],
}


def run(ctx):
    obs = ctx.obs
    obs.extra['meta'] = META
    from ..model import set_cell_scale_varies
    set_cell_scale_varies(True)            # some datasets are 100 m / 5 m models expressed in degrees
    from ..model.grids import set_wide_longitudes
    set_wide_longitudes(True)      # also datasets in the 0..360 convention / straddling 180 degrees
    contracts.attach_all(obs, only={'make_polygons_with_holes'})
    total = ctx.n(1200, 150000)
    for case, rng in ctx.cases(total):
        conv = CONVENTIONS[case % len(CONVENTIONS)]
        kw = {}
        if conv in ('cf2d', 'shoc_simple') and case % 4 == 1:
            kw = dict(bounds='var', bowtie=True, nj=int(rng.integers(3, 6)), ni=int(rng.integers(3, 6)), holes='none')
        spec = {'case': case, 'convention': conv, 'kw': kw}
        ctx.run_case(spec, one_dataset, obs, rng, conv, kw, spec)


def one_dataset(obs, rng, conv, kw, spec):
    if conv == 'ugrid' and rng.random() < 0.2:
        from ..model.ugrid import hanging_mesh
        mesh, winding = hanging_mesh(rng)
        kw = dict(kw, mesh=mesh, winding=winding)
        obs.cls('ugrid:hanging-node-mesh')
    model = make(rng, conv, **kw)
    ds = model.encode()
    spec['model'] = model.describe()
    e = model.encoding
    if conv in ('cf1d', 'cf2d', 'shoc_simple'):
        obs.cls('%s:bounds=%s' % ('cf1d' if conv == 'cf1d' else 'cf2d', e['bounds']))
        obs.cls('%s:coords=%s' % (conv, e['coord_style']))
    if conv == 'ugrid' and e['coord_style'] == 'coord':
        obs.cls('ugrid:coords-as-coordinates')
    with quiet_warnings() as log:
        ems = obs.call('dataset.ems', lambda: ds.ems)
        if isinstance(ems, Failed):
            return
        polygons = obs.call('polygons', lambda: ems.polygons)
        mask = obs.call('mask', lambda: ems.mask)
    if isinstance(polygons, Failed) or isinstance(mask, Failed):
        return
    messages = [str(w.message) for w in log if type(w.message).__name__ == 'InvalidPolygonWarning']
    size = model.size
    if not obs.expect(len(polygons) == size and len(mask) == size, 'one polygon slot and one mask entry per cell'):
        return
    tol = 1e-9 if model.derived_geometry else 0.0
    mpolys = model_polygons(model)
    holes = tuple(n for n in range(size) if mpolys[n] is None)
    obs.sig(conv, repr(sorted((k, repr(v)) for k, v in e.items() if k not in ('tables', 'edge_flip'))), model.kinds['face'].shape, holes)
    invalid = set(model.invalid_cells)
    for n in range(size):
        if n in model.skip_cells:
            obs.cls('cell:degenerate-derived-not-asserted')
            continue
        got = polygons[n]
        if n in invalid:
            named = any(re.search(r'\b%d\b' % n, m) for m in messages)
            ok = obs.expect(got is None and not bool(mask[n]) and named,
                            'self-intersecting cell is dropped (None, mask False) with an InvalidPolygonWarning naming it',
                            lambda: {'n': n, 'got': None if got is None else got.wkt, 'mask': bool(mask[n]), 'warnings': messages},
                            mech='invalid-cell-kept')
            if ok:
                obs.cls('bowtie:dropped-with-warning')
        elif mpolys[n] is None:
            obs.cls('cell:hole')
            obs.expect(got is None and not bool(mask[n]), 'cell with missing coordinates has no polygon and mask False',
                       lambda: {'n': n, 'got': None if got is None else got.wkt, 'mask': bool(mask[n])}, mech='hole-has-polygon')
        else:
            obs.cls('cell:polygon')
            obs.expect(got is not None and bool(mask[n]) and polygon_matches(got, model.cells[n], tol=tol, same_start=False),
                       'polygon is exactly the cell the dataset describes',
                       lambda: {'n': n, 'native': model.native('face', n), 'got': None if got is None else got.wkt,
                                'want': model.cells[n], 'mask': bool(mask[n])}, mech='polygon-unfaithful')
    # a second, independent convention instance over the same dataset must build the same polygons (nothing the first
    # one did may have altered the dataset or left state behind)
    if rng.random() < 0.5:
        with quiet_warnings():
            second = obs.call('second convention instance', lambda: type(ems)(ds))
            again = obs.call('polygons (second instance)', lambda: second.polygons) if not isinstance(second, Failed) else second
        if not isinstance(again, Failed):
            obs.cls('second-instance-compared')
            same = len(again) == len(polygons) and all((a is None and b is None) or (a is not None and b is not None and a.equals_exact(b, 0))
                                                       for a, b in zip(again, polygons))
            obs.expect(same, 'a second convention instance over the same dataset builds identical polygons', mech='second-instance-differs')
    # the documented explicit form for files without CF attributes: Convention(dataset, latitude=<name>, longitude=<name>)
    if conv in ('cf1d', 'cf2d') and rng.random() < 0.4:
        with quiet_warnings():
            named = obs.call('%s(dataset, latitude=, longitude=)' % type(ems).__name__,
                             lambda: type(ems)(ds, latitude=e['lat_name'], longitude=e['lon_name']))
            again = obs.call('polygons (explicit coordinate names)', lambda: named.polygons) if not isinstance(named, Failed) else named
        if not isinstance(again, Failed):
            obs.cls('explicit-coordinate-names-compared')
            same = len(again) == len(polygons) and all((a is None and b is None) or (a is not None and b is not None and a.equals_exact(b, 0))
                                                       for a, b in zip(again, polygons))
            obs.expect(same, 'a convention constructed with explicit latitude / longitude names builds the same polygons as autodetection',
                       lambda: {'latitude': e['lat_name'], 'longitude': e['lon_name']}, mech='explicit-names-differ')
    if not invalid and not model.derived_geometry:
        obs.expect(not messages, 'no InvalidPolygonWarning without an invalid cell', lambda: {'warnings': messages})
    # ---- extent -------------------------------------------------------------------------------------------
    live = [p for n, p in enumerate(mpolys) if p is not None and n not in model.skip_cells]
    if model.skip_cells or not live:
        obs.cls('extent:not-asserted(degenerate cells or no cell)')
        return
    with quiet_warnings():
        bounds = obs.call('bounds', lambda: tuple(float(v) for v in ems.bounds))
        geometry = obs.call('geometry', lambda: ems.geometry)
    obs.cls('extent:checked')
    union = shapely.unary_union(live)
    want_bounds = union.bounds
    # S-note of the design: invalid (bow-tie) cells are meant to be INTERIOR, so that "the extent of the remaining polygons"
    # is unambiguous.  With holes around it a bow-tie cell can end up on the hull; its corner coordinates are still in
    # the file, and whether the reported bounds should ignore them is not something the property decides: not asserted.
    invalid_on_hull = any(not (want_bounds[0] <= x <= want_bounds[2] and want_bounds[1] <= y <= want_bounds[3])
                          for n in invalid for x, y in model.cells[n])
    if invalid_on_hull:
        obs.cls('extent:invalid-cell-on-hull-bounds-not-asserted')
    orphans = getattr(getattr(model, 'mesh', None), 'orphans', [])
    orphan_outside = any(not (want_bounds[0] <= model.mesh.x[n] <= want_bounds[2] and want_bounds[1] <= model.mesh.y[n] <= want_bounds[3])
                         for n in orphans)
    if orphans:
        obs.cls('extent:mesh-with-orphan-nodes')
    if orphan_outside:
        obs.cls('extent:orphan-node-outside-the-hull')
    # the same goes for a cell that lacks only one of its two coordinates (no polygon): the coordinate it does have is
    # still in the file, and may lie outside the box of the remaining polygons
    if model.encoding.get('holes_missing_one_coordinate'):
        lb, tb = numpy.asarray(model.lon_bounds, dtype=float), numpy.asarray(model.lat_bounds, dtype=float)
        only_x = lb[numpy.isfinite(lb) & ~numpy.isfinite(tb)]
        only_y = tb[numpy.isfinite(tb) & ~numpy.isfinite(lb)]
        if bool(((only_x < want_bounds[0]) | (only_x > want_bounds[2])).any()) or bool(((only_y < want_bounds[1]) | (only_y > want_bounds[3])).any()):
            invalid_on_hull = True
            obs.cls('extent:half-missing-cell-on-hull-bounds-not-asserted')
    if not isinstance(bounds, Failed) and not invalid_on_hull:
        obs.expect(len(bounds) == 4 and all(abs(a - b) <= 1e-9 for a, b in zip(bounds, want_bounds)),
                   'bounds == bounding box of the cell polygons', lambda: {'got': bounds, 'want': want_bounds},
                   mech='ugrid-bounds-orphan-nodes' if orphan_outside else 'bounds-wrong')
    if not isinstance(geometry, Failed):
        area = union.area
        diff = geometry.symmetric_difference(union).area if geometry is not None else float('inf')
        obs.expect(diff <= 1e-9 * max(area, 1e-12), 'geometry == union of the cell polygons',
                   lambda: {'sym_diff_area': diff, 'area': area, 'type': getattr(geometry, 'geom_type', None)}, mech='geometry-wrong')
        if not model.derived_geometry and geometry is not None:
            # stored geometry: the union is exact, so the reported geometry must be a valid geometry that is
            # topologically equal to it (an unmerged pile of cells has the right area but is not the union)
            obs.expect(bool(geometry.is_valid) and bool(geometry.equals(union)) and len(getattr(geometry, 'geoms', [geometry])) == len(getattr(union, 'geoms', [union])),
                       'geometry is valid and topologically equal to the union of the cell polygons',
                       lambda: {'valid': bool(geometry.is_valid), 'parts': len(getattr(geometry, 'geoms', [geometry])),
                                'want parts': len(getattr(union, 'geoms', [union]))}, mech='geometry-wrong')
    if len(obs.samples) < 4 and (holes or invalid):
        obs.sample({'convention': conv, 'encoding': {k: v for k, v in e.items() if k not in ('tables', 'edge_flip')},
                    'shape': model.kinds['face'].shape, 'holes': list(holes)[:8], 'invalid': sorted(invalid),
                    'bounds': bounds if not isinstance(bounds, Failed) else None, 'warnings': messages[:1]})
