"""C17 - saving with the EMS fixes preserves data, geometry and time instants.

Part 1 drives `emsarray.utils.format_time_units_for_ems` over a grid of COMPOSED units strings (oracles/timeunits.py):
the reference instant is known from integer arithmetic, nothing is parsed to obtain the truth.
Part 2 saves generated datasets of every convention through `dataset.ems.to_netcdf` and
`emsarray.utils.to_netcdf_with_fixes`, reopens them with `emsarray.open_dataset` and with raw netCDF4 and compares with
the abstract model.
"""
import datetime
import os
import re
import shutil
import tempfile

import numpy

from .. import contracts
from ..common import Failed, nan_equal, quiet_warnings
from ..geomgen import model_polygons, polygon_matches
from ..model import CONVENTIONS, make_dressed
from ..oracles import timeunits as tu
from ..rng import chance, pick

ANCHORS = [
    'emsarray.utils:format_time_units_for_ems',
    'emsarray.utils:fix_time_units_for_ems',
    'emsarray.utils:to_netcdf_with_fixes',
    'emsarray.utils:disable_default_fill_value',
    'emsarray.conventions._base:Convention.time_coordinate',
    'emsarray.conventions._base:Convention.to_netcdf',
    'emsarray.conventions.shoc:ShocStandard.time_coordinate',
    'emsarray.conventions.shoc:ShocSimple.time_coordinate',
]

META = {
    'rule': ('(1) units strings composed from period {seconds,minutes,hours,days,milliseconds} x 105 UTC offsets '
             '(-12:00..+14:00 by 15 min) x 7 writing styles (T / blank separator, with / without seconds, +HH:MM, +HHMM, '
             '+HH for whole hours, no blank before the offset; Z / UTC / none for offset 0) x 9 epochs (leap day, year '
             'boundaries crossed by the offset, 1970, 1899, 1858, year 850): output must have the EMS form and, read by the '
             'harness parser, denote the composed instant and period; quick = every (offset, style) with 3 rotating '
             '(period, epoch) combinations, thorough = the full product (exhaustive refers to this grid only). '
             '(2) generated datasets of all five conventions, with and without a time axis, time encoding drawn from the '
             'same grid (every offset in turn), source in memory or opened from a file whose units attribute is the '
             'composed string verbatim; saved by ems.to_netcdf and to_netcdf_with_fixes; reopened by emsarray and read raw '
             'with netCDF4; distinct = units string / (convention, source, offset, style, period, model shape)'),
    'min': {'evaluations': 3000, 'distinct': 1500,
            'classes': {'units:offset-negative-fractional': 100, 'units:offset-one-digit-hour': 300,
                        'units:offset-two-digit-hour': 100, 'units:without-seconds': 200, 'units:T-separator': 200,
                        'units:crosses-day-boundary': 200, 'units:crosses-year-boundary': 50, 'units:leap-day': 100,
                        'units:utc-without-offset': 6, 'roundtrip:reference-instant-at-utc-midnight': 20, 'roundtrip:time-stored-as-float64': 20,
                        'roundtrip:cf1d': 30, 'roundtrip:cf2d': 30, 'roundtrip:shoc_simple': 30,
                        'roundtrip:shoc_standard': 30, 'roundtrip:ugrid': 30,
                        'roundtrip:no-time-axis': 15, 'roundtrip:source-opened-from-disk': 40,
                        'roundtrip:source-in-memory': 40},
            'contracts': {'format_time_units_for_ems': 100}},
    'must_reach': ['emsarray.utils:format_time_units_for_ems', 'emsarray.utils:fix_time_units_for_ems',
                   'emsarray.utils:to_netcdf_with_fixes', 'emsarray.utils:disable_default_fill_value',
                   'emsarray.conventions._base:Convention.time_coordinate', 'emsarray.conventions._base:Convention.to_netcdf',
                   'emsarray.conventions.shoc:ShocStandard.time_coordinate', 'emsarray.conventions.shoc:ShocSimple.time_coordinate'],
    'assumptions': ['proleptic Gregorian day arithmetic of the harness (days_from_civil) for the composed truth',
                    'cftime 1.6.5 / xarray read every composed INPUT style as the composed instant (checked by hand for all '
                    'styles x offsets, re-checked for cftime on every input at run time; inputs read differently are not asserted)',
                    'xarray time encoding (default integer dtype) is exact for values that are whole multiples of the period after the reference instant',
                    'netCDF4 attribute and raw value access; xarray.open_dataset CF decoding on reopen',
                    '"denotes the same instant" is judged by the harness parser AND by cftime, the CF reader the function '
                    'itself checks against (a one-digit-hour offset satisfies the stated form but cftime ignores it)',
                    'calendars standard / gregorian / proleptic_gregorian coincide after 1582'],
    'exhaustive': True,
}

EMS_FORM = r' since \d{4}-\d\d-\d\d \d\d:\d\d:\d\d [+-]\d{1,2}(:\d\d)?$'
UNPADDED_YEAR_FORM = r' since \d{1,3}-\d\d-\d\d \d\d:\d\d:\d\d [+-]\d{1,2}(:\d\d)?$'
EPOCH0 = datetime.datetime(1970, 1, 1)


def run(ctx):
    obs = ctx.obs
    obs.extra['meta'] = META
    obs.extra['exhaustive_scope'] = 'the composed time-units grid of part 1 (thorough tier); datasets are sampled'
    contracts.attach_all(obs, only={'format_time_units_for_ems'})

    # ---- part 1: the units grid -------------------------------------------------------------------------
    pairs = tu.offset_style_pairs()
    combos_all = [(p, e) for p in tu.PERIODS for e in tu.EPOCHS]
    state = {'enumerated': 0, 'skipped': 0, 'samples': 0}
    blocks = 0
    for case, rng in ctx.cases(len(pairs), stream='units'):
        off, style = pairs[case]
        if ctx.thorough:
            combos = combos_all
        else:
            # three rotating combinations: over the 739 pairs every period and every epoch is used many times
            combos = [combos_all[(case * 7 + k * 16) % len(combos_all)] for k in range(3)]
        spec = {'case': case, 'part': 'units', 'offset': tu.offset_label(off), 'style': style}
        ctx.run_case(spec, units_block, obs, spec, off, style, combos, state)
        blocks += 1
    obs.extra['units_strings_enumerated'] = state['enumerated']
    if ctx.shard == 0:
        obs.extra['units_grid_size'] = len(pairs) * len(combos_all)
    if ctx.thorough and ctx.only_case is None and state['skipped'] == 0 \
            and state['enumerated'] == blocks * len(combos_all):
        obs.extra['exhaustive_complete'] = 1

    # ---- part 2: file round trips ------------------------------------------------------------------------
    total = ctx.n(320, 24000)
    for case, rng in ctx.cases(total, stream='files'):
        conv = CONVENTIONS[(case + case // len(tu.OFFSETS)) % len(CONVENTIONS)]
        off = tu.OFFSETS[case % len(tu.OFFSETS)]
        spec = {'case': case, 'part': 'files', 'convention': conv, 'offset': tu.offset_label(off)}
        ctx.run_case(spec, one_roundtrip, obs, rng, conv, off, spec)


# ---------------------------------------------------------------------------------------------------------
# part 1
# ---------------------------------------------------------------------------------------------------------

def utc_seconds(dt):
    delta = dt - EPOCH0
    return delta.days * 86400 + delta.seconds


def classify_units(obs, off, style, epoch, truth):
    y, mo, d, h, mi, s = epoch
    if off < 0 and off % 60:
        obs.cls('units:offset-negative-fractional')
    if off % 60:
        obs.cls('units:offset-fractional-hour')
    if off != 0 and abs(off) < 600:
        obs.cls('units:offset-one-digit-hour')
    if abs(off) >= 600:
        obs.cls('units:offset-two-digit-hour')
    if off < 0:
        obs.cls('units:offset-negative')
    if 'nosec' in style or style == 'shortest':
        obs.cls('units:without-seconds')
    if style.startswith('T-') or style == 'Z' or (style == 'short' and off % 60):
        obs.cls('units:T-separator')
    if style in tu.UTC_STYLES:
        obs.cls('units:utc-without-offset')
    local_day = contracts.days_from_civil(y, mo, d)
    if truth // 86400 != local_day:
        obs.cls('units:crosses-day-boundary')
        if (mo, d) in ((12, 31), (1, 1)):
            obs.cls('units:crosses-year-boundary')
    if (mo, d) == (2, 29):
        obs.cls('units:leap-day')
    if y < 1900:
        obs.cls('units:year-before-1900')


def offset_defect_symptom(exc, off):
    """Mechanism predicate of 'time-offset-format': the composed offset is one the f'{h:+d}:{m:02d}' rendering of
    divmod(minutes, 60) gets wrong, AND the call ended in the function's own self-check error naming exactly that
    rendering as the new offset."""
    if not tu.offset_format_defect_applies(off) or not isinstance(exc, ValueError):
        return False
    text = str(exc)
    return 'does not resolve to the same reference time' in text and text.endswith(" %+d:%02d'" % divmod(off, 60))


def units_mech(off, year, result=None, truth=None, period=None, exc=None):
    """Mechanism key of a units violation (a predicate on the composed input and on the symptom)."""
    if exc is not None:
        return 'time-offset-format' if offset_defect_symptom(exc, off) else 'time-units-format'
    if isinstance(result, str) and year < 1000 and re.match('^' + re.escape(period) + UNPADDED_YEAR_FORM, result):
        parsed = contracts.parse_time_units(result)
        if parsed == (period, truth):
            return 'year-not-zero-padded'       # right instant, right offset: only the YYYY field is short
    return 'time-units-format'


def units_block(obs, spec, off, style, combos, state):
    import cftime
    import emsarray.utils as utils
    for n, (period, (elabel, epoch)) in enumerate(combos):
        units, truth = tu.compose(period, epoch, off, style)
        year = epoch[0]
        calendar = ['proleptic_gregorian', None, 'standard', 'gregorian'][(n + len(units)) % 4] if year > 1600 else 'proleptic_gregorian'
        # soundness guard: the trusted base must read the INPUT as the composed instant
        try:
            read = utc_seconds(cftime.num2pydate(0, units, calendar or 'proleptic_gregorian'))
        except Exception:  # noqa: BLE001
            read = None
        if read != truth:
            obs.cls('units:input-read-differently-by-cftime-not-asserted')
            state['skipped'] += 1
            continue
        state['enumerated'] += 1
        spec['units'] = units
        spec['calendar'] = calendar
        classify_units(obs, off, style, epoch, truth)
        obs.sig('units', units)
        fn = utils.format_time_units_for_ems
        if year < 1000:
            # The shared in-situ contract reports under its own mechanism key; for this epoch class the direct checks
            # below (a superset of the contract) do the reporting, under the key 'year-not-zero-padded'.
            fn = getattr(fn, '_vmon_orig', fn)
        args = (units,) if calendar is None else (units, calendar)
        result = obs.call('format_time_units_for_ems(%r)' % (units,), fn, *args,
                          mech=lambda exc: units_mech(off, year, exc=exc))
        if state['samples'] < 2 and off in (-570, 345) and style in ('T-sec-colon', 'sp-nosec-colon'):
            state['samples'] += 1
            obs.sample({'units': units, 'calendar': calendar, 'composed reference instant (s since 1970 UTC)': truth,
                        'result': result if not isinstance(result, Failed) else 'raised %s: %s' % (type(result.exc).__name__, str(result.exc)[:160])})
        if isinstance(result, Failed):
            continue
        mech = units_mech(off, year, result, truth, period)
        form_ok = isinstance(result, str) and re.match('^' + re.escape(period) + EMS_FORM, result) is not None
        obs.expect(form_ok, "rewritten units have the form '<unit> since YYYY-MM-DD HH:MM:SS <signed offset>'",
                   lambda: {'units': units, 'result': result}, mech=mech)
        parsed = contracts.parse_time_units(result, strict=True) if form_ok else None
        if parsed is not None:
            obs.expect(parsed == (period, truth), 'rewritten units denote the same reference instant and period',
                       lambda: {'units': units, 'result': result, 'got': parsed, 'want': (period, truth)}, mech=mech)
        if isinstance(result, str):
            # ... and for the CF reader of the trusted base too (cftime ignores e.g. a one-digit-hour offset)
            try:
                reread = utc_seconds(cftime.num2pydate(0, result, calendar or 'proleptic_gregorian'))
            except Exception as exc:  # noqa: BLE001
                reread = repr(exc)
            obs.expect(reread == truth, 'rewritten units are read by cftime as the same reference instant',
                       lambda: {'units': units, 'result': result, 'cftime reads': reread, 'want': truth},
                       mech='output-read-differently-by-cftime' if mech == 'time-units-format' else mech)


# ---------------------------------------------------------------------------------------------------------
# part 2
# ---------------------------------------------------------------------------------------------------------

def source_has_fill(variable):
    for holder in (variable.attrs, variable.encoding):
        if '_FillValue' in holder and holder['_FillValue'] is not None:
            return True
    return False


def save_mech(off, has_time, bounds=False):
    def mech(exc):
        if has_time and offset_defect_symptom(exc, off):
            return 'time-offset-format'
        if bounds and isinstance(exc, AttributeError) and 'Attribute not found' in str(exc):
            # fix_time_units_for_ems was pointed at the bounds variable, which has no units attribute in the file
            return 'time-bounds-taken-for-time-coordinate'
        if not has_time:
            return 'to-netcdf-without-time'
        return 'save-roundtrip'
    return mech


def one_roundtrip(obs, rng, conv, off, spec):
    import emsarray
    import emsarray.utils as utils
    import netCDF4
    import xarray

    has_time = not chance(rng, 0.15)
    from ..model.base import DTYPES
    # also: float variables whose missing data is marked by missing_value alone (the SHOC / EMS habit): no _FillValue in the
    # source, so none may appear in the saved file either
    model = make_dressed(rng, conv, dress=dict(time=has_time, per_kind=(1, 2), nongrid=1,
                                               dtypes=DTYPES + [('float32', ('missing_value', -9999.0)), ('float64', ('missing_value', -9999.0))]))
    if model.time is not None:
        model.time.pop('bounds', None)          # this check adds (and compares) the bounds of the time coordinate itself
    spec['model'] = model.describe()
    obs.cls('roundtrip:' + conv)
    truth = period = units = None
    if has_time:
        period = pick(rng, tu.PERIODS)
        elabel, epoch = pick(rng, tu.FILE_EPOCHS)
        if chance(rng, 0.2):
            # the everyday case: reference instant exactly at UTC midnight (xarray then writes the bare date, without
            # 'T', time of day or offset - the rewrite has to add all of them)
            if chance(rng, 0.6):
                off = 0
                elabel, epoch = pick(rng, [e for e in tu.FILE_EPOCHS if e[1][3:] == (0, 0, 0)])
            elif off >= 0:
                elabel, epoch = 'local-time-equals-offset', (1990, 1, 1, off // 60, off % 60, 0)
            spec['offset'] = tu.offset_label(off)
        style = pick(rng, tu.styles_for(off))
        units, truth = tu.compose(period, epoch, off, style)
        calendar = pick(rng, ['proleptic_gregorian', 'proleptic_gregorian', 'standard', 'gregorian'])
        # instants: whole multiples of the period after the reference instant (exactly encodable), somewhere in 2001-2035
        pns = tu.PERIOD_NS[period]
        ref_ns = truth * 10 ** 9
        target = int(rng.integers(978307200, 2051222400)) * 10 ** 9
        base = (target - ref_ns) // pns
        step = int(rng.integers(1, 50))
        counts = base + numpy.arange(model.time['size'], dtype=numpy.int64) * step
        model.time['values'] = (ref_ns + counts * pns).astype('datetime64[ns]')
        model.time['units'] = units
        model.time['calendar'] = calendar
        if period in ('days', 'hours', 'minutes') and chance(rng, 0.35):
            # the usual EMS / SHOC layout: time stored as double precision numbers (whole multiples here, so exact)
            model.time['dtype'] = 'float64'
            obs.cls('roundtrip:time-stored-as-float64')
        if period in ('days', 'hours', 'minutes') and chance(rng, 0.2):
            # records a quarter of the unit after whole multiples (six-hourly output counted in days): only fractional
            # numbers hold them, with or without a stored type named in the encoding (xarray then writes doubles)
            model.time['values'] = (ref_ns + counts * pns + pns // 4).astype('datetime64[ns]')
            model.time['fractional'] = True
            obs.cls('roundtrip:time-values-are-fractions-of-the-unit')
        spec.update({'units': units, 'calendar': calendar, 'period': period, 'style': style, 'epoch': elabel})
        classify_units(obs, off, style, epoch, truth)
        if truth % 86400 == 0:
            obs.cls('roundtrip:reference-instant-at-utc-midnight')
        if tu.offset_format_defect_applies(off):
            obs.cls('roundtrip:offset-one-digit-hour-or-negative-fractional')
    else:
        obs.cls('roundtrip:no-time-axis')
        counts = None
    source_kind = 'disk' if chance(rng, 0.4) else 'memory'
    spec['source'] = source_kind
    obs.sig('file', conv, source_kind, units, tuple(sorted((k, tuple(v.shape)) for k, v in model.kinds.items())),
            tuple(sorted((k, v.dims, v.dtype) for k, v in model.variables.items())))

    tmp = tempfile.mkdtemp(prefix='c17-')
    opened = []
    try:
        ds = model.encode()
        time_bounds = None
        if has_time and chance(rng, 0.3):
            # a CF bounds variable of the time coordinate (daily means, ...): decoded to instants as well, written without
            # attributes of its own
            tname, tdim = model.time['name'], model.time['dim']
            tv = model.time['values']
            width = numpy.timedelta64(tu.PERIOD_NS[period], 'ns')
            time_bounds = (tname + '_bnds', numpy.stack([tv - width, tv + width], axis=1))
            ds[time_bounds[0]] = xarray.DataArray(time_bounds[1], dims=[tdim, 'nv2'])
            ds[tname].attrs['bounds'] = time_bounds[0]
            obs.cls('roundtrip:time-coordinate-with-bounds')
        model.time_bounds = time_bounds
        if has_time and conv in ('shoc_standard', 'shoc_simple') and chance(rng, 0.4):
            # SHOC names its record variable ('t' / 'time'); another decoded time-like variable (the start of the model
            # run, say) that comes FIRST in the file must not be mistaken for it
            extra = xarray.Dataset({'run_start': xarray.DataArray(numpy.datetime64('2019-12-31T12:00:00', 'ns'),
                                                                  attrs={'long_name': 'start of the model run'})})
            extra['run_start'].encoding.update({'units': 'hours since 2000-01-01 00:00:00', 'dtype': 'float64'})
            merged = xarray.Dataset({**{n: extra[n].variable for n in extra.variables},
                                     **{n: ds.variables[n] for n in ds.variables if n not in ds.coords}},
                                    coords={n: ds.variables[n] for n in ds.coords}, attrs=dict(ds.attrs))
            if list(merged.variables)[0] == 'run_start' and merged.identical(ds.assign(run_start=extra['run_start'])):
                ds = merged
                obs.cls('roundtrip:other-time-variable-first')
        if source_kind == 'disk':
            obs.cls('roundtrip:source-opened-from-disk')
            # a file written by plain xarray (trusted) without automatic fill values, whose units attribute is then
            # replaced by the composed string verbatim (it denotes the same instant, so the stored numbers stay right)
            p0 = os.path.join(tmp, 'source.nc')
            plain = ds.copy(deep=False)
            for name, variable in plain.variables.items():
                if '_FillValue' not in variable.attrs and '_FillValue' not in variable.encoding and variable.dtype.kind in 'fM':
                    variable.encoding['_FillValue'] = None
            plain.to_netcdf(p0)
            if has_time:
                with netCDF4.Dataset(p0, 'r+') as nc:
                    nc.variables[model.time['name']].setncattr('units', units)
            src = obs.call('emsarray.open_dataset(source)', emsarray.open_dataset, p0)
            if isinstance(src, Failed):
                return
            opened.append(src)
        else:
            obs.cls('roundtrip:source-in-memory')
            src = ds
        with quiet_warnings():
            ems = obs.call('dataset.ems', lambda: src.ems)
        if isinstance(ems, Failed):
            return
        obs.expect(type(ems).__name__ == model.expected_class, 'source dataset is detected as the generated convention',
                   lambda: {'got': type(ems).__name__, 'want': model.expected_class})
        fills = {str(name): source_has_fill(variable) for name, variable in src.variables.items()}
        if chance(rng, 0.5):
            # the dataset has been USED before it is saved (plotted, queried): whatever that computed must not leak into
            # the variables that are written
            with quiet_warnings():
                used = obs.call('polygons (before saving)', lambda: ems.polygons)
            if not isinstance(used, Failed):
                obs.cls('roundtrip:geometry-used-before-saving')

        # ---- A: the convention's save method -------------------------------------------------------------
        path_a = os.path.join(tmp, 'a.nc')
        with quiet_warnings():
            r = obs.call('dataset.ems.to_netcdf', ems.to_netcdf, path_a, mech=save_mech(off, has_time, time_bounds is not None))
        if not isinstance(r, Failed):
            if not has_time:
                obs.cls('roundtrip:saved-without-time-axis')
            check_file(obs, model, path_a, fills, 'ems.to_netcdf', has_time, True, period, truth, counts, spec, opened)

        # ---- B: utils.to_netcdf_with_fixes ----------------------------------------------------------------
        path_b = os.path.join(tmp, 'b.nc')
        if has_time:
            how = pick(rng, ['name', 'name', 'array', 'none'])
            tv = {'name': model.time['name'], 'array': src[model.time['name']], 'none': None}[how]
        else:
            how, tv = 'none', None
        obs.cls('roundtrip:time_variable=' + how)
        with quiet_warnings():
            r = obs.call('to_netcdf_with_fixes(time_variable=%s)' % how, utils.to_netcdf_with_fixes, src, path_b,
                         time_variable=tv, mech=save_mech(off, has_time))
        if not isinstance(r, Failed):
            check_file(obs, model, path_b, fills, 'to_netcdf_with_fixes', has_time, how != 'none', period, truth, counts,
                       spec, opened)
        # ---- D: the caller names other time units for the file (keyword arguments go to xarray's to_netcdf) -----------
        if has_time and chance(rng, 0.3) and not model.time.get('fractional') and model.time.get('dtype') != 'float64':
            # (instants that went through double precision numbers are not whole seconds to the nanosecond: xarray then
            # picks units of its own, and the premise "the file carries the units the caller named" is gone)
            elabel2, epoch2 = pick(rng, [e for e in tu.FILE_EPOCHS if e[1][3:] == (0, 0, 0)])
            period2 = period if tu.PERIOD_NS[period] < 10 ** 9 else 'seconds'      # every instant is a whole number of these
            units2, truth2 = tu.compose(period2, epoch2, 0, pick(rng, tu.styles_for(0)))
            enc = {model.time['name']: {'units': units2, 'calendar': model.time['calendar'], 'dtype': numpy.dtype('int64')}}
            path_d = os.path.join(tmp, 'd.nc')
            obs.cls('roundtrip:units-overridden-by-encoding-argument')
            with quiet_warnings():
                r = obs.call('dataset.ems.to_netcdf(encoding={time: other units})', lambda: ems.to_netcdf(path_d, encoding=enc),
                             mech=save_mech(0, has_time, time_bounds is not None))
            if not isinstance(r, Failed):
                was = model.time.get('dtype'), model.time['units']
                model.time['dtype'], model.time['units'] = 'int64', units2
                try:
                    check_file(obs, model, path_d, fills, 'ems.to_netcdf(encoding=)', has_time, True, period2, truth2, None,
                               spec, opened)
                finally:
                    model.time['dtype'], model.time['units'] = was
        # ---- C: one time slice: the time coordinate is a scalar, still "the time coordinate" -------------------------
        if has_time and chance(rng, 0.5):
            k = int(rng.integers(model.time['size']))
            tname, tdim = model.time['name'], model.time['dim']
            with quiet_warnings():
                one = obs.call('dataset.isel(time=k)', lambda: src.isel({tdim: k}))
            if not isinstance(one, Failed) and tname in one.variables and one[tname].ndim == 0:
                obs.cls('roundtrip:single-time-slice')
                path_c = os.path.join(tmp, 'c.nc')
                with quiet_warnings():
                    r = obs.call('dataset.isel(time=k).ems.to_netcdf', lambda: one.ems.to_netcdf(path_c), mech=save_mech(off, has_time, time_bounds is not None))
                if not isinstance(r, Failed):
                    check_time_slice(obs, model, path_c, k, period, truth, spec)
    finally:
        for d in opened:
            try:
                d.close()
            except Exception:  # noqa: BLE001
                pass
        shutil.rmtree(tmp, ignore_errors=True)


def raw_to_ns(raw, pns):
    """Stored time numbers (whole or fractional) -> nanoseconds after the reference instant, in integer arithmetic."""
    raw = numpy.asarray(raw, dtype='float64')
    whole = numpy.floor(raw)
    return whole.astype(numpy.int64) * pns + numpy.round((raw - whole) * pns).astype(numpy.int64)


def check_time_slice(obs, model, path, k, period, truth, spec):
    """A saved single time slice: units of the (scalar) time variable in the EMS form, same reference instant, same instant."""
    import netCDF4
    with netCDF4.Dataset(path, 'r') as nc:
        nc.set_auto_maskandscale(False)
        tname = model.time['name']
        if not obs.expect(tname in nc.variables, 'time variable is present in the saved time slice', mech='time-slice'):
            return
        tvar = nc.variables[tname]
        on_disk = tvar.getncattr('units') if 'units' in tvar.ncattrs() else None
        form_ok = isinstance(on_disk, str) and re.match('^' + re.escape(period) + EMS_FORM, on_disk) is not None
        obs.expect(form_ok, 'time units attribute of a saved single time slice has the EMS form',
                   lambda: {'requested': model.time['units'], 'on disk': on_disk, 'time dims': tvar.dimensions}, mech='units-on-disk-form')
        if not form_ok:
            return
        parsed = contracts.parse_time_units(on_disk, strict=True)
        obs.expect(parsed == (period, truth), 'time units of the saved time slice denote the requested reference instant and period',
                   lambda: {'on disk': on_disk, 'got': parsed, 'want': (period, truth)}, mech='units-on-disk-instant')
        raw = numpy.asarray(tvar[...]).reshape(-1)
        want = int(model.time['values'].astype('int64')[k])
        got = parsed[1] * 10 ** 9 + int(raw_to_ns(raw, tu.PERIOD_NS.get(parsed[0], 0))[0]) if raw.size == 1 else None
        obs.expect(got is not None and abs(got - want) <= (2000 if model.time.get('fractional') else 0),
                   'stored time number x period + reference instant = the instant of the slice',
                   lambda: {'on disk': on_disk, 'raw': raw, 'got': got, 'want': want}, mech='time-instants-raw')


def shoc_simple_order_defect(back):
    """Mechanism predicate: ShocSimple.topology indexes attrs['standard_name'] of every ('j', 'i') variable it meets before
    the latitude / longitude variable; a variable without that attribute ahead of them raises KeyError."""
    for wanted in ('latitude', 'longitude'):
        for name, variable in back.variables.items():
            if variable.dims != ('j', 'i'):
                continue
            if 'standard_name' not in variable.attrs:
                return True
            if variable.attrs['standard_name'] == wanted:
                break
    return False


def check_file(obs, model, path, fills, how, has_time, units_fixed, period, truth, counts, spec, opened):
    import emsarray
    import netCDF4

    # ---- (ii) the raw file ------------------------------------------------------------------------------------
    with netCDF4.Dataset(path, 'r') as nc:
        nc.set_auto_maskandscale(False)
        for name, ncvar in nc.variables.items():
            if name not in fills:
                continue
            if fills[name]:
                obs.cls('roundtrip:variable-with-own-fill-value')
                continue
            obs.cls('roundtrip:variable-without-fill-value-checked')
            obs.expect('_FillValue' not in ncvar.ncattrs(), 'no _FillValue attribute on disk where the source had none',
                       lambda: {'how': how, 'variable': name, 'dtype': str(ncvar.dtype), 'attrs': list(ncvar.ncattrs())},
                       mech='fill-value-added')
        for name, var in model.variables.items():
            if not obs.expect(name in nc.variables, 'variable is present in the saved file', lambda: {'variable': name}):
                continue
            ncvar = nc.variables[name]
            want = var.data(model)
            got = numpy.asarray(ncvar[...])
            if var.dtype.startswith('float') and var.fill is not None:
                # missing data of a float variable may be stored as NaN or as the declared missing_value: the same thing
                got = numpy.where(got == numpy.asarray(var.fill[1], dtype=got.dtype), numpy.asarray(numpy.nan, dtype=got.dtype), got)
            obs.expect(tuple(ncvar.dimensions) == var.dims and got.dtype == want.dtype and nan_equal(got, want),
                       'stored (raw) values, dtype and dimensions of the variable are unchanged',
                       lambda: {'how': how, 'variable': name, 'dims': ncvar.dimensions, 'dtype': str(got.dtype),
                                'got': got, 'want': want}, mech='raw-values')
        if has_time:
            tvar = nc.variables[model.time['name']]
            on_disk = tvar.getncattr('units') if 'units' in tvar.ncattrs() else None
            parsed = None
            if units_fixed:
                form_ok = isinstance(on_disk, str) and re.match('^' + re.escape(period) + EMS_FORM, on_disk) is not None
                obs.expect(form_ok, 'time units attribute on disk has the EMS form',
                           lambda: {'how': how, 'requested': model.time['units'], 'on disk': on_disk}, mech='units-on-disk-form')
                if form_ok:
                    parsed = contracts.parse_time_units(on_disk, strict=True)
            else:
                obs.cls('roundtrip:time-variable-not-given-units-form-not-asserted')
                parsed = contracts.parse_time_units(on_disk) if isinstance(on_disk, str) else None
            if isinstance(on_disk, str) and units_fixed:
                import cftime
                try:
                    reread = utc_seconds(cftime.num2pydate(0, on_disk, model.time['calendar']))
                except Exception as exc:  # noqa: BLE001
                    reread = repr(exc)
                obs.expect(reread == truth, 'time units on disk are read by cftime as the requested reference instant',
                           lambda: {'how': how, 'requested': model.time['units'], 'on disk': on_disk, 'cftime reads': reread,
                                    'want': truth}, mech='output-read-differently-by-cftime')
            if parsed is not None:
                obs.expect(parsed == (period, truth), 'time units on disk denote the requested reference instant and period',
                           lambda: {'how': how, 'requested': model.time['units'], 'on disk': on_disk, 'got': parsed,
                                    'want': (period, truth)}, mech='units-on-disk-instant')
                raw = numpy.asarray(tvar[...])
                whole = bool(numpy.all(raw == numpy.round(raw))) or bool(model.time.get('fractional'))
                instants = parsed[1] * 10 ** 9 + raw_to_ns(raw, tu.PERIOD_NS.get(parsed[0], 0))
                # fractional numbers are doubles: a quarter of a minute 85 million minutes after the epoch is exact to 1 us
                tol = 2000 if model.time.get('fractional') else 0
                obs.expect(whole and instants.shape == model.time['values'].shape
                           and bool(numpy.all(numpy.abs(instants - model.time['values'].astype('int64')) <= tol)),
                           'stored time numbers x period + reference instant on disk = the original instants',
                           lambda: {'how': how, 'on disk': on_disk, 'raw': raw, 'want counts': counts}, mech='time-instants-raw')
            cal = tvar.getncattr('calendar') if 'calendar' in tvar.ncattrs() else None
            obs.expect(cal == model.time['calendar'], 'calendar attribute on disk is the requested one',
                       lambda: {'got': cal, 'want': model.time['calendar']})
            if len(obs.samples) < 4 and units_fixed and spec.get('offset') not in ('+10:00', '+00:00'):
                obs.sample({'convention': model.convention, 'saved by': how, 'source': spec.get('source'),
                            'requested units': model.time['units'], 'units on disk': on_disk,
                            'raw time values': numpy.asarray(tvar[...]), 'instants': model.time['values'].astype(str),
                            'variables': {n: [v.dtype, v.fill] for n, v in model.variables.items()}})

    # ---- (i) reopened through emsarray ------------------------------------------------------------------------------
    with quiet_warnings():
        back = obs.call('emsarray.open_dataset(saved file)', emsarray.open_dataset, path)
    if isinstance(back, Failed):
        return
    opened.append(back)
    with quiet_warnings():
        bems = obs.call('reopened.ems', lambda: back.ems)
    if isinstance(bems, Failed):
        return
    obs.expect(type(bems).__name__ == model.expected_class, 'reopened dataset has the same convention',
               lambda: {'how': how, 'got': type(bems).__name__, 'want': model.expected_class}, mech='convention-changed')
    # polygons
    with quiet_warnings():
        polygons = obs.call('reopened.ems.polygons', lambda: bems.polygons,
                            mech=lambda exc: 'shoc-simple-standard-name-keyerror'
                            if model.convention == 'shoc_simple' and isinstance(exc, KeyError) and shoc_simple_order_defect(back)
                            else 'reopened-polygons')
    if not isinstance(polygons, Failed):
        mpolys = model_polygons(model)
        tol = 1e-9 if model.derived_geometry else 0.0
        if obs.expect(len(polygons) == len(mpolys), 'reopened dataset has one polygon slot per cell',
                      lambda: {'got': len(polygons), 'want': len(mpolys)}):
            bad = []
            for n, want in enumerate(mpolys):
                if n in model.skip_cells:
                    continue
                got = polygons[n]
                if want is None:
                    same = got is None
                else:
                    same = got is not None and polygon_matches(got, model.cells[n], tol=tol, same_start=False)
                if not same:
                    bad.append(n)
            obs.expect(not bad, 'polygons of the reopened dataset are identical to the model cells',
                       lambda: {'how': how, 'cells': bad[:10], 'got': [None if polygons[n] is None else polygons[n].wkt for n in bad[:3]],
                                'want': [model.cells[n] for n in bad[:3]]}, mech='polygons-changed')
            obs.cls('roundtrip:polygons-compared')
    # variable values (decoded): integer variables carrying a fill attribute come back as floats with NaN
    for name, var in model.variables.items():
        if not obs.expect(name in back.variables, 'variable is present in the reopened dataset', lambda: {'variable': name}):
            continue
        got = back[name]
        want = var.layout(model) if var.fill is not None else var.data(model)
        obs.expect(tuple(got.dims) == var.dims and nan_equal(got.values, want),
                   'variable values of the reopened dataset are identical',
                   lambda: {'how': how, 'variable': name, 'dtype': var.dtype, 'fill': var.fill, 'got dims': got.dims,
                            'got': got.values, 'want': want}, mech='values-changed')
    for d in model.depths:
        if d['name'] in back.variables:
            obs.expect(nan_equal(back[d['name']].values, numpy.asarray(d['values'], dtype=float)),
                       'depth coordinate values are identical', lambda: {'name': d['name']}, mech='values-changed')
    if has_time:
        name = model.time['name']
        if obs.expect(name in back.variables, 'time variable is present in the reopened dataset'):
            got = back[name].values
            # double precision time numbers are decoded by floating point arithmetic: allow 1 microsecond there
            slack = 2000 if model.time.get('fractional') else 1000 if model.time.get('dtype') == 'float64' else 0
            obs.expect(got.dtype.kind == 'M' and got.shape == model.time['values'].shape
                       and bool(numpy.all(numpy.abs(got.astype('datetime64[ns]').astype('int64')
                                                    - model.time['values'].astype('int64')) <= slack)),
                       'decoded time instants of the reopened dataset are identical',
                       lambda: {'how': how, 'requested units': model.time['units'], 'got': got.astype(str),
                                'want': model.time['values'].astype(str)}, mech='time-instants-decoded')
            obs.cls('roundtrip:time-instants-compared')
            if getattr(model, 'time_bounds', None) is not None:
                bname, bwant = model.time_bounds
                if obs.expect(bname in back.variables, 'bounds variable of the time coordinate is present in the reopened dataset',
                              mech='time-bounds'):
                    bgot = back[bname].values
                    obs.expect(bgot.dtype.kind == 'M' and bgot.shape == bwant.shape
                               and bool(numpy.all(numpy.abs(bgot.astype('datetime64[ns]').astype('int64') - bwant.astype('int64')) <= slack)),
                               'decoded bounds of the time coordinate are the same instants',
                               lambda: {'how': how, 'got': bgot.astype(str), 'want': bwant.astype(str)}, mech='time-bounds')
