"""C12 - ocean floor extraction returns the deepest valid value of every water column."""
import numpy

from .. import contracts
from ..common import Failed, nan_equal, quiet_warnings
from ..model import make
from ..oracles import depthgen
from ..rng import chance, pick

ANCHORS = [
    'emsarray.operations.depth:ocean_floor',
    'emsarray.operations.depth:_find_ocean_floor_indexes',
    'emsarray.operations.depth:normalize_depth_variables',
    'emsarray.conventions._base:Convention.ocean_floor',
    'emsarray.conventions._base:Convention.depth_coordinates',
    'emsarray.conventions.shoc:ShocStandard.depth_coordinates',
    'emsarray.conventions.shoc:ShocSimple.depth_coordinates',
    'emsarray.utils:extract_vars',
    'emsarray.utils:dimensions_from_coords',
]

CONVS = ['cf1d', 'shoc_simple', 'shoc_standard', 'ugrid', 'cf2d']
CASE_MECH = 'positive-attr-case-sensitive'
BOUNDS_MECH = 'depth-bounds-variable-breaks-ocean-floor'
TOPOLOGY_MECH = 'shoc-simple-topology-keyerror-standard-name'

META = {
    'rule': ('generated datasets of CF 1-D, CF 2-D, SHOC simple, SHOC standard and UGRID with 1-2 depth coordinates '
             '(positive up/down x stored deep-to-shallow/shallow-to-deep x attribute spelled in lower or other case or absent x '
             'coordinate/plain variable x with/without bounds), float variables carrying self-identifying ids on every grid kind '
             'with the depth dimension at every position, with/without time and an unrelated band dimension, NaN below a static '
             'sea floor shared by each (depth axis, grid kind) pair: 0..K wet layers per column (random, staircase, all wet, all '
             'dry, gaps above the floor); calls: dataset.ems.ocean_floor() and operations.depth.ocean_floor(ds, coords, '
             'non_spatial_variables=[time] | [time, band] | None) with coordinates given by name or as DataArray, also with only '
             'one of two depth coordinates; oracle = id of the physically deepest non-NaN layer per column/time read from the '
             'abstract model; distinct = (convention, axis orientations, variable dimension orders, floor styles, route); '
             'non-trivial = >= 2 levels and >= 2 columns'),
    'min': {'evaluations': 3000, 'distinct': 2000,
            'classes': {'route:ems': 300, 'route:direct': 500, 'route:direct-no-time': 100, 'route:time-as-spatial': 60,
                        'route:partial-coords': 50, 'axes:2': 200,
                        'orient:down/shallow-first': 250, 'orient:down/deep-first': 250,
                        'orient:up/shallow-first': 250, 'orient:up/deep-first': 250,
                        'column:all-dry': 3000, 'column:all-wet': 3000, 'column:partial': 5000,
                        'depth-dim-first': 700, 'depth-dim-last': 700, 'depth-dim-inner': 700,
                        'variable-without-depth-unchanged': 1500, 'variable-on-non-default-kind': 800,
                        'attr:absent': 100, 'attr:other-case': 300, 'group-with-gaps-above-floor': 100,
                        'coordinate-as-plain-variable': 150,
                        'conv:cf1d': 100, 'conv:shoc_simple': 100, 'conv:shoc_standard': 100, 'conv:ugrid': 100, 'conv:cf2d': 100},
            'contracts': {'_find_ocean_floor_indexes': 2000}},
    'must_reach': ['emsarray.operations.depth:ocean_floor', 'emsarray.operations.depth:_find_ocean_floor_indexes',
                   'emsarray.operations.depth:normalize_depth_variables', 'emsarray.conventions._base:Convention.ocean_floor',
                   'emsarray.conventions.shoc:ShocStandard.depth_coordinates', 'emsarray.conventions.shoc:ShocSimple.depth_coordinates'],
    'assumptions': ['static sea floor per (depth axis, spatial dimensions) group, as documented by ocean_floor',
                    'only float variables carry a depth axis; a variable has at most one depth axis',
                    'depth coordinates monotonic with >= 2 levels; without a positive attribute the values avoid 0 and mixed signs',
                    'numpy / xarray container semantics; shapely WKB equality for "geometry unchanged"',
                    'not asserted (property silent): depth variables on no grid, the bounds variable of a depth coordinate, '
                    'order of the remaining dimensions of a reduced variable, order of variables, global attributes'],
}


def run(ctx):
    obs = ctx.obs
    obs.extra['meta'] = META
    contracts.attach_all(obs, only={'_find_ocean_floor_indexes'})
    total = ctx.n(1200, 100000)
    for case, rng in ctx.cases(total):
        conv = CONVS[case % len(CONVS)]
        spec = {'case': case, 'convention': conv}
        ctx.run_case(spec, one_dataset, obs, rng, conv, spec)


def build(rng, conv):
    kw = {}
    if conv in ('cf2d', 'shoc_simple'):
        kw = dict(bowtie=False, maxn=5)
    elif conv == 'cf1d':
        kw = dict(maxn=5)
    elif conv == 'shoc_standard':
        kw = dict(maxn=4)
    elif conv == 'ugrid':
        kw = dict(maxn=3)
    model = make(rng, conv, **kw)
    recognisable = chance(rng, 0.8)
    depthgen.dress(model, rng, conv, recognisable=recognisable, same_dim=0.15, bounds_p=0.12)
    return model


def polygons_wkb(polygons):
    return [None if p is None else p.wkb for p in polygons]


def one_dataset(obs, rng, conv, spec):
    model = build(rng, conv)
    info = model.depth_info
    axes = info['axes']
    ds = depthgen.encode(model)
    # sometimes the depth dimension carries one more (auxiliary) coordinate, e.g. a layer number: it is one of "its
    # coordinates" and has to go with the dimension
    aux = {}
    if chance(rng, 0.35):
        a = pick(rng, axes)
        nk = ds.sizes[a['dim']]
        aux_name = 'layer_number_' + str(a['dim'])
        ds = ds.assign_coords({aux_name: (a['dim'], numpy.arange(nk, dtype='int32') + 1, {'long_name': 'layer number'})})
        aux[aux_name] = a['dim']
        obs.cls('auxiliary-coordinate-on-depth-dimension')
    model.depth_info['aux'] = aux
    # a bathymetry variable: depth-like attributes (standard_name "depth", positive) but defined on one of the grids -
    # it describes the sea floor of every cell / node / edge, it is not a depth axis, and has to be left as it was
    if chance(rng, 0.4):
        kname = pick(rng, sorted(model.kinds))
        kind = model.kinds[kname]
        battrs = dict(pick(rng, [{'standard_name': 'depth', 'positive': 'down'}, {'positive': 'up'}, {'positive': 'down', 'units': 'm'},
                                 {'standard_name': 'depth'}, {'coordinate_type': 'Z'}, {'standard_name': 'depth', 'axis': 'Z'}]))
        bname = pick(rng, ['botz', 'bathymetry', 'h']) + '_' + kname
        import xarray
        ds[bname] = xarray.DataArray(rng.uniform(1, 80, size=kind.shape).round(2), dims=kind.dims, attrs=battrs)
        if chance(rng, 0.3):
            ds = ds.set_coords(bname)
        obs.cls('bathymetry-on-grid')
        obs.cls('bathymetry-on-non-default-grid' if kname != model.default_kind else 'bathymetry-on-default-grid')
    # a multi-dimensional auxiliary coordinate that carries the depth dimension AND the horizontal ones (the depth of every
    # layer centre in a terrain-following model, say; missing below the sea floor like the data): it is a variable with
    # a depth dimension, and is reduced like one - it is not one of the (one-dimensional) coordinates OF the depth dimension
    zaux = {}
    if chance(rng, 0.3):
        cands = [n for n, v in model.variables.items() if v.kind is not None and n in info['var_axis'] and v.dtype == 'float64'
                 and n in ds.data_vars]
        if cands:
            src = pick(rng, cands)
            zname = 'z_at_' + src
            ds = ds.assign_coords({zname: (ds[src].dims, ds[src].values + 0.5, {'long_name': 'depth of the layer centre'})})
            zaux[zname] = src
            obs.cls('multi-dimensional-coordinate-with-depth-dimension')
    model.depth_info['zaux'] = zaux
    spec['model'] = model.describe()
    spec['axes'] = [depthgen.axis_summary(a) for a in axes]
    obs.cls('conv:' + conv)
    with quiet_warnings():
        ems = obs.call('dataset.ems', lambda: ds.ems)
        if isinstance(ems, Failed):
            return
        before = obs.call('polygons (input)', lambda: polygons_wkb(ems.polygons))
    if isinstance(before, Failed):
        return
    snap = depthgen.snapshot(ds)
    has_time = model.time is not None
    has_band = info['band_coord'] is not None and 'band' in ds.coords     # only when some variable uses the band dimension
    tname = model.time['name'] if has_time else None
    if len(axes) == 2:
        obs.cls('axes:2')

    routes = []
    if has_time and all(a['recognised'] for a in axes):
        routes.append(('ems', list(range(len(axes))), 'time'))
    # direct calls: all coordinates; sometimes only one of two
    if has_time:
        ns = pick(rng, ['time', 'time', 'time-da', 'none'] + (['time+band'] if has_band else []))
    else:
        ns = pick(rng, ['none', 'empty'] + (['band'] if has_band else []))
    routes.append(('direct', list(range(len(axes))), ns))
    if len(axes) == 2 and axes[0]['dim'] != axes[1]['dim'] and chance(rng, 0.4):
        routes.append(('direct', [int(rng.integers(2))], 'time' if has_time else 'none'))

    for route, which, ns in routes:
        chosen = [axes[i] for i in which]
        if route == 'ems':
            obs.cls('route:ems')
            with quiet_warnings():
                out = obs.call('dataset.ems.ocean_floor', ems.ocean_floor, mech=lambda exc: exc_mech(axes, exc))
        else:
            coords = [a['name'] if chance(rng, 0.6) else ds[a['name']] for a in chosen]
            if chance(rng, 0.3):
                coords = iter(coords) if chance(rng, 0.5) else (c for c in list(coords))     # a one-shot iterable is an Iterable too
                obs.cls('depth-coordinates-as-one-shot-iterable')
            kw = {}
            if ns == 'time':
                kw['non_spatial_variables'] = [tname]
            elif ns == 'time-da':
                kw['non_spatial_variables'] = [ds[tname]]
            elif ns == 'time+band':
                kw['non_spatial_variables'] = [tname, 'band']
            elif ns == 'band':
                kw['non_spatial_variables'] = ['band']
            elif ns == 'empty':
                kw['non_spatial_variables'] = []
            obs.cls('route:direct')
            if not has_time:
                obs.cls('route:direct-no-time')
            elif ns == 'none':
                obs.cls('route:time-as-spatial')
            if len(which) < len(axes):
                obs.cls('route:partial-coords')
            from emsarray.operations import depth
            with quiet_warnings():
                out = obs.call('operations.depth.ocean_floor', depth.ocean_floor, ds, coords,
                               mech=lambda exc: exc_mech(axes, exc), **kw)
        if isinstance(out, Failed):
            continue
        check_floor(obs, model, ds, snap, before, out, chosen, route, ns, conv)


def exc_mech(axes, exc=None):
    """Mechanism key of an exception out of ocean_floor, by error signature / input class (never by case number)."""
    text = str(exc)
    if isinstance(exc, ValueError) and 'not found in array dimensions' in text and "'bnd2'" in text \
            and any(a['bounds_style'] == 'var' for a in axes):
        # the bounds variable of a depth coordinate was reduced together with an earlier group and has lost the depth dimension
        return BOUNDS_MECH
    return None        # any other exception stays unclassified (the case-variant mis-reading gives wrong values, not errors)


def check_floor(obs, model, ds, snap, before, out, chosen, route, ns, conv):
    info = model.depth_info
    axes = info['axes']
    done_dims = {a['dim'] for a in chosen}
    done_axes = [a for a in axes if a['dim'] in done_dims]        # a coordinate sharing the dimension goes with it
    for a in chosen:
        key = 'orient:%s/%s' % ('down' if a['down'] else 'up', 'deep-first' if a['deep_first'] else 'shallow-first')
        obs.cls(key)
        if a['attr'] is None:
            obs.cls('attr:absent')
        elif a['attr'] not in ('up', 'down'):
            obs.cls('attr:other-case')
        if a['style'] == 'var':
            obs.cls('coordinate-as-plain-variable')
    # ---- the depth dimension and its coordinates are removed ------------------------------------------
    for a in done_axes:
        obs.expect(a['dim'] not in out.dims, 'depth dimension still present after ocean_floor',
                   lambda: {'dim': a['dim'], 'dims': dict(out.sizes)}, mech='depth-dim-kept')
        obs.expect(a['name'] not in out.variables, 'depth coordinate still present after ocean_floor',
                   lambda: {'name': a['name'], 'variables': list(out.variables)}, mech='depth-coord-kept')
    for aux_name, aux_dim in info.get('aux', {}).items():
        if aux_dim in done_dims:
            obs.expect(aux_name not in out.variables, 'auxiliary coordinate of the depth dimension still present (in some form) after ocean_floor',
                       lambda: {'name': aux_name, 'dims': out[aux_name].dims if aux_name in out.variables else None}, mech='depth-coord-kept')
    skip = set(n for n, d in info.get('aux', {}).items() if d in done_dims)
    for a in axes:
        if a['bounds'] is not None:
            skip.add(a['name'] + '_bounds')                       # property silent about a depth coordinate's bounds
            if a['dim'] in done_dims:
                obs.cls('depth-bounds-variable-not-asserted')
    # ---- every variable -------------------------------------------------------------------------------------
    sampled = bool(model.depth_info.get('sampled'))
    for name, sv in snap['vars'].items():
        if name in skip or any(name == a['name'] for a in done_axes):
            continue
        touched = [d for d in sv['dims'] if d in done_dims]
        if not touched:
            # all other variables, dimensions and geometry are left as they were
            if not obs.expect(name in out.variables, 'variable without depth dimension lost by ocean_floor',
                              lambda: {'variable': name, 'dims': sv['dims']}, mech='other-variable-lost'):
                continue
            why = depthgen.var_diff(sv, out.variables[name])
            obs.expect(why is None, 'variable without depth dimension changed by ocean_floor',
                       lambda: {'variable': name, 'why': why, 'route': route}, mech='other-variable-changed')
            obs.expect((name in out.coords) == (name in snap['coords']), 'coordinate / data variable status changed',
                       lambda: {'variable': name}, mech='other-variable-changed')
            if name in model.variables:
                obs.cls('variable-without-depth-unchanged')
            continue
        if name in info.get('zaux', {}):
            src = info['zaux'][name]
            if info['var_axis'][src] not in [axes.index(a) for a in done_axes]:
                continue
            if not obs.expect(name in out.variables, 'multi-dimensional coordinate with a depth dimension lost by ocean_floor',
                              lambda: {'coordinate': name, 'dims': sv['dims'], 'route': route}, mech='depth-variable-lost'):
                continue
            want_dims, want = depthgen.floor_oracle(model, src)
            gotz = out[name]
            if obs.expect(set(gotz.dims) == set(want_dims) and len(gotz.dims) == len(want_dims),
                          'reduced multi-dimensional coordinate does not have exactly the non-depth dimensions',
                          lambda: {'coordinate': name, 'got': gotz.dims, 'want': want_dims, 'route': route}, mech='multidim-depth-coordinate-broadcast'):
                obs.expect(nan_equal(gotz.transpose(*want_dims).values, want + 0.5),
                           'multi-dimensional coordinate: floor value is not the value of the deepest layer holding data',
                           lambda: {'coordinate': name, 'got': gotz.transpose(*want_dims).values, 'want': want + 0.5, 'route': route},
                           mech='floor-value')
                obs.cls('multi-dimensional-coordinate-reduced')
            continue
        var = model.variables.get(name)
        if var is None or var.kind is None:
            obs.cls('depth-variable-on-no-grid-not-asserted')
            continue
        axis = axes[info['var_axis'][name]]
        # the known mis-reading of a case-variant "down" spoils the whole DIMENSION (a twin coordinate on it included)
        mech = CASE_MECH if any(depthgen.case_variant_down(a['attr']) for a in done_axes if a['dim'] == axis['dim']) else 'floor-value'
        if not obs.expect(name in out.data_vars, 'depth variable lost by ocean_floor', lambda: {'variable': name}, mech='depth-variable-lost'):
            continue
        want_dims, want = depthgen.floor_oracle(model, name)
        got = out[name]
        if not obs.expect(set(got.dims) == set(want_dims) and len(got.dims) == len(want_dims),
                          'reduced variable does not have exactly the non-depth dimensions',
                          lambda: {'variable': name, 'got': got.dims, 'want': want_dims, 'route': route}, mech='floor-dims'):
            continue
        if tuple(got.dims) != tuple(want_dims):
            obs.cls('remaining-dimension-order-changed-not-asserted')
        got_vals = got.transpose(*want_dims).values
        ok = obs.expect(nan_equal(got_vals, want) and str(got.dtype) == var.dtype,
                        'ocean floor value is not the value of the physically deepest layer holding data',
                        lambda: floor_detail(model, name, axis, got_vals, want, route, ns), mech=mech)
        obs.expect(depthgen.meta_equal(dict(got.attrs), sv['attrs']), 'attributes of a reduced variable changed',
                   lambda: {'variable': name, 'got': dict(got.attrs), 'want': sv['attrs']}, mech='floor-attrs')
        # classes: position of the depth dimension, grid kind, column shapes
        p = var.dims.index(axis['dim'])
        obs.cls('depth-dim-first' if p == 0 else 'depth-dim-last' if p == len(var.dims) - 1 else 'depth-dim-inner')
        if var.kind != model.default_kind:
            obs.cls('variable-on-non-default-kind')
        if axis['nk'] >= 2 and model.kinds[var.kind].size >= 2:
            obs.sig(conv, route, ns, var.kind, var.dims, axis['down'], axis['deep_first'], axis['attr'], axis['nk'],
                    tuple(int(c) for c in group_of(info, name)['counts'][:12]))
        if ok and not sampled and len(obs.samples) < 4 and len(var.dims) >= 3 and model.kinds[var.kind].size >= 3:
            sampled = True
            info['sampled'] = True
            g = group_of(info, name)
            obs.sample({'convention': conv, 'route': route, 'non_spatial': ns, 'variable': name, 'dims': var.dims,
                        'depth coordinate': depthgen.axis_summary(axis), 'wet layers per column': g['counts'][:10],
                        'floor style': g['style'], 'result dims': got.dims, 'result (first values)': got_vals.ravel()[:10]})
    for g in info['groups']:
        if axes[g['axis']]['dim'] in done_dims:
            wet = g['mask'].sum(axis=0)
            nk = axes[g['axis']]['nk']
            obs.cls('column:all-dry', int((wet == 0).sum()))
            obs.cls('column:all-wet', int((wet == nk).sum()))
            obs.cls('column:partial', int(((wet > 0) & (wet < nk)).sum()))
            if not bool(numpy.array_equal(wet, g['counts'])):
                obs.cls('group-with-gaps-above-floor')
    # ---- dimensions -------------------------------------------------------------------------------------------
    for dim, size in snap['sizes'].items():
        if dim in done_dims or dim == 'bnd2':
            continue
        obs.expect(out.sizes.get(dim) == size, 'another dimension changed or vanished',
                   lambda: {'dim': dim, 'was': size, 'now': out.sizes.get(dim)}, mech='other-dimension-changed')
    # ---- geometry ---------------------------------------------------------------------------------------------
    with quiet_warnings():
        after = obs.call('polygons (output)', lambda: polygons_wkb(out.ems.polygons),
                         mech=lambda exc: TOPOLOGY_MECH if conv == 'shoc_simple' and isinstance(exc, KeyError)
                         and exc.args == ('standard_name',) else 'geometry-unusable')
    if not isinstance(after, Failed):
        obs.expect(after == before, 'polygons of the reduced dataset differ from the input polygons',
                   lambda: {'n_before': len(before), 'n_after': len(after)}, mech='geometry-changed')
        if type(out.ems).__name__ != model.expected_class:
            obs.cls('convention-class-changed-not-asserted')
    if not depthgen.meta_equal(dict(out.attrs), snap['attrs']):
        obs.cls('global-attrs-changed-not-asserted')


def group_of(info, name):
    for g in info['groups']:
        if name in g['names']:
            return g
    return None


def floor_detail(model, name, axis, got, want, route, ns):
    var = model.variables[name]
    return {'variable': name, 'dims': var.dims, 'route': route, 'non_spatial': ns, 'axis': depthgen.axis_summary(axis),
            'got': got, 'want': want, 'dtype': var.dtype}
