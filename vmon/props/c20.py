"""C20 - command line tools compute exactly what the library computes.

Three workloads:
  grammar     emsarray.cli.utils.geometry_argument / bounds_argument called directly on COMPOSED strings
              (oracles/cliref.py): the four numbers / the GeoJSON mapping a string was built from are the truth.
  cli         generated datasets of every convention written to disk by plain xarray; `emsarray.cli.main(argv)` run
              in-process for clip / extract-points / export-geometry and compared, file content by file content, with
              the corresponding library call on the same inputs; user errors must exit non-zero, say why, write nothing.
  subprocess  a sample of the same cases through `python -m emsarray`.
"""
import argparse
import json
import os
import shutil
import tempfile

import numpy
import shapely
import shapely.geometry

from ..common import Failed, nan_equal, quiet_warnings
from ..geomgen import clip_geometries, hull_bounds, model_polygons
from ..model import CONVENTIONS, make_dressed
from ..oracles import cliref
from ..rng import chance, pick

ANCHORS = [
    'emsarray.cli.utils:geometry_argument',
    'emsarray.cli.utils:bounds_argument',
    'emsarray.cli:main',
    'emsarray.cli:_find_all_commands',
    'emsarray.cli:command_line_flags',
    'emsarray.cli.utils:nice_console_errors',
    'emsarray.cli.utils:set_verbosity',
    'emsarray.cli.command:BaseCommand.add_parser',
    'emsarray.cli.commands.clip:Command.handle',
    'emsarray.cli.commands.extract_points:Command.handle',
    'emsarray.cli.commands.export_geometry:Command.handle',
    'emsarray.cli.commands.export_geometry:Command.guess_format',
]

META = {
    'rule': ('grammar: strings composed from four numbers (sign, "5.", ".5", "1_000", decimals, blanks/tabs around the commas) '
             'must give exactly box(a, b, c, d) from geometry_argument and bounds_argument; composed non-bounds strings '
             '(1-3 / 5-6 fields, trailing text, exponent, empty field, other separators, "+1", nan, inf, bad underscores, '
             'blank inside a number) must end in ArgumentTypeError; GeoJSON text / .json / .geojson file => shape(obj); '
             'unsupported, broken, missing files => ArgumentTypeError. cli: every convention on disk x clip (bounds string, '
             'GeoJSON string, GeoJSON file; +- --work_dir) x extract-points (CSV with hits and misses, column names, '
             'dimension name, three policies) x export-geometry (four formats explicit / guessed, double suffixes) x user '
             'errors, compared with the library call; distinct = string / (command, convention, argument form, model shape)'),
    'min': {'evaluations': 3000, 'distinct': 1500,
            'classes': {'grammar:valid-bounds': 800, 'grammar:non-bounds': 1000, 'grammar:non-bounds-with-valid-prefix': 200,
                        'grammar:geojson-text': 100, 'grammar:geojson-file': 20, 'grammar:unreadable-file': 20,
                        'cli:clip': 40, 'cli:extract-points': 100, 'cli:export-geometry': 100, 'cli:user-error': 60,
                        'cli:compared-with-library': 150, 'cli:exit-nonzero-checked': 80,
                        'cli:cf1d': 8, 'cli:cf2d': 8, 'cli:shoc_simple': 8, 'cli:shoc_standard': 8, 'cli:ugrid': 8,
                        'points:misses-with-error-policy': 10, 'points:policy=drop': 15, 'points:policy=fill': 15,
                        'export:format-guessed': 30, 'export:format-explicit': 30}},
    'must_reach': ['emsarray.cli.utils:geometry_argument', 'emsarray.cli.utils:bounds_argument', 'emsarray.cli:main',
                   'emsarray.cli:_find_all_commands', 'emsarray.cli.utils:nice_console_errors',
                   'emsarray.cli.commands.clip:Command.handle', 'emsarray.cli.commands.extract_points:Command.handle',
                   'emsarray.cli.commands.export_geometry:Command.handle',
                   'emsarray.cli.commands.export_geometry:Command.guess_format'],
    'assumptions': ['Python float() of plain decimal text; shapely.box / shapely.geometry.shape / mapping; json',
                    'netCDF4 raw access for file comparison (HDF5 container bytes are not compared, content is)',
                    'input files are written by plain xarray.Dataset.to_netcdf from the abstract model',
                    'leading / trailing blanks around a whole argument are not asserted either way; a bounds argument '
                    'starting with "-" is not used on the command line (argparse would read it as an option)',
                    'an input on which the library call itself raises says nothing about CLI == library: only exit status, '
                    'message and absence of output are checked there',
                    'dask runs with the synchronous scheduler (worker default; DASK_SCHEDULER for the subprocess sample): '
                    'thread-safety of netCDF4/HDF5 under dask threads is not part of the property',
                    'the in-process run captures stderr by redirecting sys.stderr before main() configures logging; the '
                    'reach monitor does not see the subprocess sample'],
}

STRINGS_PER_BLOCK = 20


def run(ctx):
    obs = ctx.obs
    obs.extra['meta'] = META
    from ..model.grids import set_wide_longitudes
    set_wide_longitudes(True)      # also datasets in the 0..360 convention / straddling 180 degrees
    for case, rng in ctx.cases(ctx.n(250, 10000), stream='grammar'):
        spec = {'case': case, 'part': 'grammar'}
        ctx.run_case(spec, grammar_block, obs, rng, spec)
    for case, rng in ctx.cases(ctx.n(96, 4000), stream='cli'):
        conv = CONVENTIONS[case % len(CONVENTIONS)]
        spec = {'case': case, 'part': 'cli', 'convention': conv}
        ctx.run_case(spec, one_dataset, obs, rng, conv, spec, 'in-process')
    for case, rng in ctx.cases(ctx.n(6, 64), stream='subprocess'):
        conv = CONVENTIONS[case % len(CONVENTIONS)]
        spec = {'case': case, 'part': 'subprocess', 'convention': conv}
        ctx.run_case(spec, one_dataset, obs, rng, conv, spec, 'subprocess')


# =========================================================================================================
# grammar
# =========================================================================================================

def is_exact_box(geom, values):
    a, b, c, d = values
    if geom is None or getattr(geom, 'geom_type', None) != 'Polygon' or len(geom.interiors) != 0:
        return False
    coords = [(float(x), float(y)) for x, y in geom.exterior.coords]
    corners = {(a, b), (a, d), (c, b), (c, d)}
    # (a degenerate box, a == c or b == d, has fewer distinct vertices: compare vertex sets and the envelope)
    return coords[0] == coords[-1] and set(coords) == corners \
        and tuple(geom.bounds) == (min(a, c), min(b, d), max(a, c), max(b, d))


def looks_like_box(geom):
    try:
        return geom is not None and geom.geom_type == 'Polygon' and len(geom.exterior.coords) == 5 \
            and geom.equals(shapely.box(*geom.bounds))
    except Exception:  # noqa: BLE001
        return False


def bounds_value_mech(text, got):
    """'bounds-regex-unanchored' when the result is exactly the box denoted by a proper prefix of the string (the
    pattern stopped matching before the end of the text, e.g. dropping the decimals of the last number)."""
    for k in range(len(text) - 1, 0, -1):
        shorter = cliref.parse_bounds(text[:k])
        if shorter is not None and is_exact_box(got, shorter):
            return 'bounds-regex-unanchored'
    return 'bounds-value'


def nonbounds_mech(text):
    return 'bounds-regex-unanchored' if cliref.has_valid_bounds_prefix(text) else 'non-bounds-accepted'


def grammar_block(obs, rng, spec):
    from emsarray.cli import utils as cli_utils
    tmp = None
    try:
        for _ in range(STRINGS_PER_BLOCK):
            r = rng.random()
            if r < 0.38:
                text, values = cliref.compose_bounds(rng)
                if cliref.parse_bounds(text) != values:
                    raise AssertionError('composer and recogniser disagree on %r' % (text,))
                spec['string'] = text
                obs.cls('grammar:valid-bounds')
                if any(ch in text for ch in ' \t'):
                    obs.cls('grammar:valid-bounds-with-blanks')
                if '_' in text:
                    obs.cls('grammar:valid-bounds-with-underscore')
                obs.sig('bounds', text)
                for fname in ('geometry_argument', 'bounds_argument'):
                    got = obs.call('%s(valid bounds string)' % fname, getattr(cli_utils, fname), text, mech='valid-bounds-refused')
                    if isinstance(got, Failed):
                        continue
                    exact = is_exact_box(got, values)
                    obs.expect(exact, "bounds 'a,b,c,d' denote exactly box(a, b, c, d)",
                               lambda: {'function': fname, 'string': text, 'numbers': values, 'got': got.wkt},
                               mech=None if exact else bounds_value_mech(text, got))
                if len(obs.samples) < 1 and not isinstance(got, Failed):
                    obs.sample({'bounds string': text, 'numbers': values, 'bounds_argument': got.wkt})
            elif r < 0.86:
                text, kind = cliref.compose_nonbounds(rng)
                if cliref.parse_bounds(text) is not None or text != text.strip() or os.path.exists(text):
                    obs.cls('grammar:composed-string-valid-or-blank-edged-not-asserted')
                    continue
                spec['string'] = text
                obs.cls('grammar:non-bounds')
                obs.cls('grammar:non-bounds:' + kind)
                prefix = cliref.has_valid_bounds_prefix(text)
                if prefix:
                    obs.cls('grammar:non-bounds-with-valid-prefix')
                obs.sig('nonbounds', text)
                mech = nonbounds_mech(text)
                e1 = obs.raises('geometry_argument(non-bounds string: %s)' % kind, cli_utils.geometry_argument, text,
                                exc_types=(argparse.ArgumentTypeError,), mech=mech)
                e2 = obs.raises('bounds_argument(non-bounds string: %s)' % kind, cli_utils.bounds_argument, text,
                                exc_types=(argparse.ArgumentTypeError,), mech=mech)
                if len(obs.samples) < 2 and prefix:
                    obs.sample({'non-bounds string': text, 'class': kind,
                                'geometry_argument': 'ArgumentTypeError' if e1 is not None else 'returned a geometry',
                                'bounds_argument': 'ArgumentTypeError' if e2 is not None else 'returned a geometry'})
            elif r < 0.94:
                obj, kind = cliref.compose_geojson(rng)
                text = cliref.dump_geojson(rng, obj)
                spec['string'] = text[:200]
                obs.cls('grammar:geojson-text')
                obs.sig('geojson', text)
                want = shapely.geometry.shape(obj)
                got = obs.call('geometry_argument(GeoJSON %s)' % kind, cli_utils.geometry_argument, text, mech='geojson-refused')
                if not isinstance(got, Failed):
                    obs.expect(got.geom_type == want.geom_type and got.wkb == want.wkb, 'GeoJSON text denotes shape(obj)',
                               lambda: {'text': text[:300], 'got': got.wkt[:300], 'want': want.wkt[:300]}, mech='geojson-value')
                obs.raises('bounds_argument(GeoJSON text)', cli_utils.bounds_argument, text,
                           exc_types=(argparse.ArgumentTypeError,), mech='non-bounds-accepted')
            else:
                if tmp is None:
                    tmp = tempfile.mkdtemp(prefix='c20g-')
                geometry_file_case(obs, rng, spec, tmp, cli_utils)
    finally:
        if tmp is not None:
            shutil.rmtree(tmp, ignore_errors=True)


def geometry_file_case(obs, rng, spec, tmp, cli_utils):
    obj, kind = cliref.compose_geojson(rng)
    text = cliref.dump_geojson(rng, obj)
    variant = pick(rng, ['good.geojson', 'good.json', 'good.geojson', 'unsupported', 'broken-json', 'not-geometry', 'missing', 'directory'])
    stem = os.path.join(tmp, 'g%d' % int(rng.integers(10 ** 6)))
    if variant.startswith('good') and chance(rng, 0.4):
        # the same file name again and again (rewritten with another geometry each time): the argument is a path, and
        # what it denotes is whatever the file holds NOW
        stem = reused_stem()
        obs.cls('grammar:geojson-file-path-reused')
    spec['string'] = variant
    if variant.startswith('good'):
        path = stem + variant[4:]
        with open(path, 'w') as f:
            f.write(text)
        obs.cls('grammar:geojson-file')
        obs.sig('geojson-file', variant, text)
        want = shapely.geometry.shape(obj)
        got = obs.call('geometry_argument(path to %s)' % variant, cli_utils.geometry_argument, path, mech='geojson-file-refused')
        if not isinstance(got, Failed):
            obs.expect(got.geom_type == want.geom_type and got.wkb == want.wkb, 'GeoJSON file denotes shape(obj)',
                       lambda: {'got': got.wkt[:300], 'want': want.wkt[:300]}, mech='geojson-value')
        return
    obs.cls('grammar:unreadable-file')
    obs.cls('grammar:unreadable-file:' + variant)
    if variant == 'unsupported':
        path = stem + pick(rng, ['.txt', '.wkt', '.shp', '', '.GEOJSON.bak'])
        with open(path, 'w') as f:
            f.write(text)
    elif variant == 'broken-json':
        path = stem + pick(rng, ['.json', '.geojson'])
        with open(path, 'w') as f:
            f.write(text[:max(1, len(text) // 2)])
    elif variant == 'not-geometry':
        path = stem + pick(rng, ['.json', '.geojson'])
        with open(path, 'w') as f:
            # (a FeatureCollection of several features is valid GeoJSON but does not denote ONE geometry)
            json.dump(pick(rng, [{'a': 1}, [1, 2, 3], {'type': 'Nothing', 'coordinates': [1, 2]}, 5, {'type': 'Polygon'}, {'type': 'FeatureCollection', 'features': [{'type': 'Feature', 'properties': {}, 'geometry': {'type': 'Polygon', 'coordinates': [[[100, -30], [120, -30], [120, -10], [100, -10], [100, -30]]]}}, {'type': 'Feature', 'properties': {}, 'geometry': {'type': 'Point', 'coordinates': [140, -20]}}]}]), f)
    elif variant == 'missing':
        path = stem + '.geojson'
    else:
        path = stem + '.geojson'
        os.mkdir(path)
    obs.sig('bad-file', variant, os.path.basename(path)[-8:])
    obs.raises('geometry_argument(%s file)' % variant, cli_utils.geometry_argument, path,
               exc_types=(argparse.ArgumentTypeError,), mech='unreadable-geometry-accepted')


# =========================================================================================================
# command line vs library
# =========================================================================================================

def reused_stem():
    import tempfile
    return os.path.join(tempfile.gettempdir(), 'reused-geometry-%d' % os.getpid())


class Env:
    """One dataset on disk plus the way the command line is run for it."""

    def __init__(self, obs, rng, model, tmp, inp, mode, spec):
        self.obs, self.rng, self.model, self.tmp, self.inp, self.mode, self.spec = obs, rng, model, tmp, inp, mode, spec
        self.count = 0

    def path(self, name):
        self.count += 1
        return os.path.join(self.tmp, '%02d-%s' % (self.count, name))

    def run(self, argv):
        self.obs.evaluation()
        flags = pick(self.rng, [[], [], [], ['-q'], ['-v'], ['--silent'], ['-vv']])
        argv = flags + [str(a) for a in argv]
        self.spec['argv'] = [a if len(a) < 160 else a[:160] + '...' for a in argv]
        if self.mode == 'subprocess':
            self.obs.cls('cli:subprocess')
            return cliref.run_subprocess(argv, cwd=self.tmp)
        with quiet_warnings():
            return cliref.run_inprocess(argv)


def one_dataset(obs, rng, conv, spec, mode):
    model = make_dressed(rng, conv, dress=dict(time=chance(rng, 0.7), per_kind=(1, 2), nongrid=1))
    spec['model'] = model.describe()
    if not any(p is not None for p in model_polygons(model)):
        obs.cls('cli:model-without-polygons-skipped')
        return
    tmp = tempfile.mkdtemp(prefix='c20-')
    try:
        inp = os.path.join(tmp, 'input.nc')
        plain = model.encode()
        encoding = {}
        if chance(rng, 0.4):
            # missing coordinates written the way most ocean models write them: a numeric _FillValue, not NaN
            for gname in model.geometry_names:
                gvar = plain.variables.get(gname)
                if gvar is not None and gvar.dtype.kind == 'f' and bool(numpy.isnan(gvar.values).any()):
                    encoding[gname] = {'_FillValue': -999.0 if gvar.dtype == numpy.float64 else numpy.float32(-999.0)}
            if encoding:
                obs.cls('cli:holes-stored-as-numeric-fill-value')
        many = mode == 'in-process' and spec['case'] % 24 == 5
        if many:
            # a dataset with more data variables than xarray keeps files open at once (file_cache_maxsize, 128): whatever
            # the command still has to read when it writes its output must not live in a directory that is already gone
            face = model.kinds[model.default_kind]
            for k in range(140):
                plain['extra_%03d' % k] = (face.dims, numpy.full(face.shape, float(k)))
            obs.cls('cli:dataset-with-more-than-128-variables')
        plain.to_netcdf(inp, encoding=encoding)          # plain xarray: the dataset "written to disk"
        env = Env(obs, rng, model, tmp, inp, mode, spec)
        obs.cls('cli:' + conv)
        env.many_vars = many
        if many:
            ops = [op_clip]
        elif mode == 'subprocess':
            ops = [pick(rng, [op_clip, op_points, op_points, op_export, op_export, op_user_error, op_user_error])]
        else:
            ops = [op_clip, op_points, op_points, op_points, op_export, op_export, op_export, op_user_error, op_user_error]
        for op in ops:
            spec.pop('argv', None)
            op(env)
    finally:
        shutil.rmtree(tmp, ignore_errors=True)


def outputs_present(path):
    return sorted(cliref.sibling_files(path)) if os.path.isdir(os.path.dirname(path)) else []


def expect_user_error(env, res, out, what, mech='user-error-exit-status'):
    """Non-zero exit status, a message on stderr, no output file."""
    obs = env.obs
    obs.cls('cli:exit-nonzero-checked')
    if not obs.expect(res.failed, what + ': exit status is non-zero',
                      lambda: {'output written': outputs_present(out) if out else None, **res.brief()}, mech=mech):
        return
    obs.expect(res.stderr.strip() != '', what + ': a message is written to stderr', lambda: res.brief(), mech='user-error-no-message')
    if out is not None:
        left = outputs_present(out)
        obs.expect(not left, what + ': no output file is left behind (no partial success)', lambda: {'files': left, **res.brief()},
                   mech='user-error-partial-output')


def compare_with_library(env, what, res, out_cli, lib_exc, out_lib, differ, diff_mech=None):
    """CLI == library on the same inputs; where the library call raises only the error behaviour is checked."""
    obs = env.obs
    if lib_exc is not None:
        obs.cls('library-raised-not-asserted')
        obs.cls('library-raised:%s:%s' % (what.split()[0], type(lib_exc).__name__))
        mech = 'cli-success-where-library-raises'
        if not res.failed and diff_mech is not None:
            mech = diff_mech() or mech
        if outputs_present(out_lib):
            obs.cls('library-raised-leaving-a-file-output-absence-not-asserted')
            expect_user_error(env, res, None, what + ' (library call raises %s)' % type(lib_exc).__name__, mech=mech)
        else:
            expect_user_error(env, res, out_cli, what + ' (library call raises %s)' % type(lib_exc).__name__, mech=mech)
        return False
    obs.cls('cli:compared-with-library')
    ok = obs.expect(not res.failed, what + ': succeeds where the library call succeeds', lambda: res.brief(),
                    mech='cli-failed-where-library-succeeds')
    if not ok:
        return False
    if not obs.expect(bool(outputs_present(out_cli)), what + ': exit status 0 but no output file', lambda: res.brief(), mech='exit-0-without-output'):
        return False
    diff = differ()
    if diff is None:
        return obs.expect(True, what + ': output file content equals the result of the library call')
    mech = (diff_mech() if diff_mech is not None else None) or 'cli-output-differs'
    return obs.expect(False, what + ': output file content equals the result of the library call', diff, mech=mech)


def decoded_file_vs_dataset(path, dataset):
    """-> None, or a description of the first variable whose decoded values in the file differ from the in-memory dataset."""
    import xarray
    with quiet_warnings():
        back = xarray.open_dataset(path)
        back.load()
        back.close()
    for name in dataset.variables:
        want = dataset.variables[name]
        if name not in back.variables:
            return {'variable': str(name), 'problem': 'missing from the file'}
        got = back.variables[name]
        if tuple(got.dims) != tuple(want.dims):
            return {'variable': str(name), 'problem': 'dimensions differ', 'file': got.dims, 'returned': want.dims}
        a, b = numpy.asarray(got.values), numpy.asarray(want.values)
        if a.dtype.kind in 'OUS' or b.dtype.kind in 'OUS':
            def blank(v):       # a missing text cell: NaN in the table, the empty string in a netCDF string variable
                return v is None or v != v or v == ''
            equal = a.shape == b.shape and all((x == y) or (blank(x) and blank(y)) for x, y in zip(a.ravel().tolist(), b.ravel().tolist()))
        elif a.dtype.kind == 'M' or b.dtype.kind == 'M':
            equal = a.shape == b.shape and bool(numpy.array_equal(a.astype('datetime64[ns]'), b.astype('datetime64[ns]'), equal_nan=True))
        else:
            equal = nan_equal(a, b)
        if not equal:
            bad = numpy.argwhere(~((a.astype(float) == b.astype(float)) | (numpy.isnan(a.astype(float)) & numpy.isnan(b.astype(float))))) \
                if a.shape == b.shape and a.dtype.kind in 'fiu' and b.dtype.kind in 'fiu' else None
            only_missing = bad is not None and bool(numpy.all(numpy.isnan(b.astype(float))[tuple(bad.T)]))
            return {'variable': str(name), 'problem': 'values differ', 'file': a, 'returned': b,
                    'stored as integer': str(want.encoding.get('dtype', ''))[:3] in ('int', 'uin') or numpy.dtype(want.encoding.get('dtype', 'float64')).kind in 'iu',
                    'missing rows only': only_missing}
    return None


def nc_differ(out_cli, out_lib):
    return lambda: cliref.nc_diff(cliref.nc_content(out_cli), cliref.nc_content(out_lib))


# ---------------------------------------------------------------------------------------------------------
# clip
# ---------------------------------------------------------------------------------------------------------

def partial_box_text(env):
    """A bounds string (composed from four numbers written within the grammar) that cuts the model."""
    rng = env.rng
    minx, miny, maxx, maxy = hull_bounds(env.model)
    w, h = maxx - minx, maxy - miny
    x0 = minx - 0.25 * w + float(rng.uniform(0, 0.6)) * w
    x1 = x0 + float(rng.uniform(0.3, 0.9)) * w
    y0 = miny - 0.25 * h + float(rng.uniform(0, 0.6)) * h
    y1 = y0 + float(rng.uniform(0.3, 0.9)) * h
    texts = [cliref.number_text(round(v, int(rng.integers(1, 6))), rng) for v in (x0, y0, x1, y1)]
    text = cliref.join_bounds(rng, texts)
    values = cliref.parse_bounds(text)
    if values is None or text.startswith('-'):
        raise AssertionError('composed bounds string is not within the grammar: %r' % (text,))
    return text, values


def library_clip(env, geom, out_lib):
    import emsarray
    src = clipped = None
    try:
        work = tempfile.mkdtemp(prefix='libclip-', dir=env.tmp)
        with quiet_warnings():
            src = emsarray.open_dataset(env.inp)
            clipped = src.ems.clip(geom, work_dir=work)
            clipped.ems.to_netcdf(out_lib)
        return None
    except Exception as exc:  # noqa: BLE001
        return exc
    finally:
        for d in (clipped, src):
            if d is not None:
                try:
                    d.close()
                except Exception:  # noqa: BLE001
                    pass


def op_clip(env):
    obs, rng, model = env.obs, env.rng, env.model
    form = pick(rng, ['bounds', 'bounds', 'geojson-string', 'geojson-file'])
    if form == 'bounds':
        arg, values = partial_box_text(env)
        geom = shapely.box(*values)
        gclass = 'box'
    else:
        g, gclass = clip_geometries(model, rng, 1)[0]
        text = json.dumps(shapely.geometry.mapping(g))
        geom = shapely.geometry.shape(json.loads(text))        # the geometry the text denotes
        if form == 'geojson-string':
            arg = text
        else:
            arg = env.path('clip' + pick(rng, ['.geojson', '.json']))
            if chance(rng, 0.5):
                arg = reused_stem() + '.geojson'
                obs.cls('clip:geojson-file-path-reused')
            with open(arg, 'w') as f:
                f.write(text)
    out_cli, out_lib = env.path('clip-cli.nc'), env.path('clip-lib.nc')
    argv = ['clip', env.inp, arg, out_cli]
    if chance(rng, 0.3) and not getattr(env, 'many_vars', False):
        wd = env.path('workdir')
        os.mkdir(wd)
        argv += ['--work_dir', wd]
        obs.cls('clip:--work_dir')
    obs.cls('cli:clip')
    obs.cls('clip:form=' + form)
    obs.sig('clip', model.convention, form, gclass, tuple(model.kinds[model.default_kind].shape), arg[:60])
    res = env.run(argv)
    lib_exc = library_clip(env, geom, out_lib)

    def diff_mech():
        # Mechanism predicate of 'bounds-regex-unanchored': this tree's own argument parser reads the string as the box
        # denoted by a proper PREFIX of it (the pattern stopped matching before the end), and the command line produced
        # exactly what the library produces for that prefix box.
        if form != 'bounds' or not outputs_present(out_cli):
            return None
        from emsarray.cli import utils as cli_utils
        try:
            parsed = cli_utils.geometry_argument(arg)
        except Exception:  # noqa: BLE001
            return None
        if is_exact_box(parsed, values):
            return None
        for k in range(1, len(arg)):
            shorter = cliref.parse_bounds(arg[:k])
            if shorter is not None and is_exact_box(parsed, shorter):
                out_alt = env.path('clip-prefix.nc')
                if library_clip(env, shapely.box(*shorter), out_alt) is None \
                        and cliref.nc_diff(cliref.nc_content(out_cli), cliref.nc_content(out_alt)) is None:
                    return 'bounds-regex-unanchored'
                return None
        return None

    same = compare_with_library(env, 'clip (%s)' % form, res, out_cli, lib_exc, out_lib, nc_differ(out_cli, out_lib), diff_mech)
    if same:
        reopen_netcdf(env, out_cli, 'clip', same_convention=True)
        if len(obs.samples) < 3:
            obs.sample({'argv': env.spec.get('argv'), 'exit': res.code, 'compared with': 'open_dataset(input).ems.clip(geometry, work_dir).ems.to_netcdf(out)',
                        'identical content': True, 'variables': [v['name'] for v in cliref.nc_content(out_cli)['variables']]})


def reopen_netcdf(env, path, what, same_convention=False, point_dim=None, point_count=None):
    """exit 0 => complete, reopenable output."""
    import xarray
    obs = env.obs
    try:
        ds = xarray.open_dataset(path)
    except Exception as exc:  # noqa: BLE001
        obs.fail('%s: exit status 0 but the output can not be reopened' % what, {'error': repr(exc)[:300]}, mech='output-not-reopenable')
        return
    try:
        if same_convention:
            with quiet_warnings():
                name = obs.call('reopened clip output .ems', lambda: type(ds.ems).__name__)
            if not isinstance(name, Failed):
                obs.expect(name == env.model.expected_class, 'clipped output is a dataset of the same convention',
                           lambda: {'got': name, 'want': env.model.expected_class}, mech='output-convention')
        if point_dim is not None:
            obs.expect(ds.sizes.get(point_dim) == point_count, 'point output holds one entry per extracted point',
                       lambda: {'dim': point_dim, 'sizes': dict(ds.sizes), 'want': point_count}, mech='output-point-count')
    finally:
        ds.close()


# ---------------------------------------------------------------------------------------------------------
# extract-points
# ---------------------------------------------------------------------------------------------------------

def op_points(env):
    import emsarray
    import pandas
    from emsarray.operations import point_extraction
    from emsarray.utils import to_netcdf_with_fixes
    obs, rng, model = env.obs, env.rng, env.model
    polys = model_polygons(model)
    live = [n for n, p in enumerate(polys) if p is not None and n not in model.skip_cells]
    if not live:
        obs.cls('points:model-without-cells-skipped')
        return
    minx, miny, maxx, maxy = hull_bounds(model)
    span = max(maxx - minx, maxy - miny, 1e-3)
    n_hits = int(rng.integers(1, 6))
    n_miss = int(rng.integers(1, 4)) if chance(rng, 0.6) else 0
    rows = []
    for _ in range(n_hits):
        p = polys[pick(rng, live)].representative_point()
        rows.append((float(p.x), float(p.y), True))
    for _ in range(n_miss):
        rows.append((maxx + span * float(rng.uniform(2, 9)), maxy + span * float(rng.uniform(2, 9)), False))
    blank_row = chance(rng, 0.2)
    if blank_row:
        # a row whose coordinate cells are blank (a site that has not been surveyed yet): it is a request like any other,
        # it lies nowhere in the model, and the rows after it keep their own places
        rows.append((float('nan'), float('nan'), False))
        n_miss += 1
    order = rng.permutation(len(rows))
    rows = [rows[i] for i in order]
    if blank_row and len(rows) >= 2 and rows[-1][0] != rows[-1][0]:
        rows[0], rows[-1] = rows[-1], rows[0]        # not the last row
    if blank_row:
        env.obs.cls('points:csv-with-blank-coordinate-row')
    lon_name, lat_name = pick(rng, [('lon', 'lat'), ('lon', 'lat'), ('x', 'y'), ('longitude', 'latitude'), ('lat', 'lon')])
    columns = {lon_name: ['' if r[0] != r[0] else repr(r[0]) for r in rows], lat_name: ['' if r[1] != r[1] else repr(r[1]) for r in rows],
               'name': [pick(rng, ['site%d', 'reef #%d', 'st. %d; north', 'a b %d']) % i for i in range(len(rows))], 'val': [repr(round(float(v), 3)) for v in rng.uniform(0, 9, size=len(rows))],
               'n': [str(int(v)) for v in rng.integers(0, 99, size=len(rows))]}
    if blank_row and chance(rng, 0.5):
        # ... and sometimes the whole record is empty (",,,,"): still a record, still a request that lies nowhere
        k_blank = [i for i, r in enumerate(rows) if r[0] != r[0]][0]
        for col in ('name', 'val', 'n'):
            columns[col][k_blank] = ''
        obs.cls('points:csv-with-entirely-empty-record')
    if len(rows) >= 2 and chance(rng, 0.4):
        # blank cells in the non-coordinate columns (a missing site name, a missing measurement): the row still is a point
        obs.cls('points:csv-with-blank-cells')
        for col in ('name', 'val', 'n'):
            if chance(rng, 0.6):
                columns[col][int(rng.integers(len(rows)))] = ''
    names = list(columns)
    names = [names[i] for i in rng.permutation(len(names))]
    csv = env.path('points.csv')
    with open(csv, 'w') as f:
        f.write(','.join(names) + '\n')
        for i in range(len(rows)):
            f.write(','.join(columns[c][i] for c in names) + '\n')
    policy = pick(rng, ['error', 'drop', 'fill', None])
    dim = pick(rng, [None, None, 'station', 'obs'])
    out_cli, out_lib = env.path('points-cli.nc'), env.path('points-lib.nc')
    argv = ['extract-points', env.inp, csv, out_cli]
    if (lon_name, lat_name) != ('lon', 'lat') or chance(rng, 0.3):
        argv += [pick(rng, ['-c', '--coordinate-columns']), lon_name, lat_name]
    if dim is not None:
        argv += [pick(rng, ['-d', '--point-dimension']), dim]
    if policy is not None:
        argv += ['--missing-points', policy]
    eff_policy = policy or 'error'
    eff_dim = dim or 'point'
    obs.cls('cli:extract-points')
    obs.cls('points:policy=' + eff_policy)
    obs.cls('points:with-misses' if n_miss else 'points:all-inside')
    obs.sig('points', model.convention, eff_policy, eff_dim, (lon_name, lat_name), n_hits, n_miss, tuple(names),
            tuple(model.kinds[model.default_kind].shape))
    res = env.run(argv)

    # the corresponding library call
    lib_exc, src = None, None
    try:
        with quiet_warnings():
            src = emsarray.open_dataset(env.inp)
            frame = pandas.read_csv(csv)
            point_data = point_extraction.extract_dataframe(src, frame, (lon_name, lat_name), point_dimension=eff_dim,
                                                            missing_points=eff_policy)
            to_netcdf_with_fixes(point_data, out_lib, time_variable=model.time['name'] if model.time is not None else None)
    except Exception as exc:  # noqa: BLE001
        lib_exc = exc
    finally:
        if src is not None:
            src.close()

    if n_miss and eff_policy == 'error':
        # the statement itself: points outside the model end with a non-zero exit status, a message, no partial success
        obs.cls('points:misses-with-error-policy')
        expect_user_error(env, res, out_cli, 'extract-points with points outside the model (--missing-points error)')
        if len(obs.samples) < 4:
            obs.sample({'argv': env.spec.get('argv'), 'points': len(rows), 'outside the model': n_miss, 'exit': res.code,
                        'stderr': res.stderr[-300:], 'output written': outputs_present(out_cli)})
        return
    same = compare_with_library(env, 'extract-points (%s)' % eff_policy, res, out_cli, lib_exc, out_lib, nc_differ(out_cli, out_lib))
    if same:
        want = n_hits if eff_policy == 'drop' else len(rows)
        reopen_netcdf(env, out_cli, 'extract-points', point_dim=eff_dim, point_count=want)
        # ... and the file, read back, holds what the library call RETURNED (in memory), not merely what the library would
        # have written: a value that the writer spoils is a difference between the command and the library result too
        diff = decoded_file_vs_dataset(out_cli, point_data)
        obs.cls('points:file-compared-with-returned-dataset')
        if diff is not None:
            int_promoted = eff_policy == 'fill' and n_miss and diff.get('stored as integer') and diff.get('missing rows only')
            obs.expect(False, 'extract-points: the file read back equals the dataset the library call returns', diff,
                       mech='fill-policy-integer-variable-spoiled-on-write' if int_promoted else 'cli-file-differs-from-returned-dataset')
        else:
            obs.ok()


# ---------------------------------------------------------------------------------------------------------
# export-geometry
# ---------------------------------------------------------------------------------------------------------

EXT_FORMAT = {'.json': 'geojson', '.geojson': 'geojson', '.wkt': 'wkt', '.wkb': 'wkb', '.shp': 'shapefile'}
FORMAT_EXT = {'geojson': ['.geojson', '.json'], 'wkt': ['.wkt'], 'wkb': ['.wkb'], 'shapefile': ['.shp']}


def library_writer(fmt):
    from emsarray.operations import geometry
    return {'geojson': geometry.write_geojson, 'wkt': geometry.write_wkt, 'wkb': geometry.write_wkb,
            'shapefile': geometry.write_shapefile}[fmt]


def count_geometries(path, fmt):
    """Number of polygons in an exported geometry file, read without emsarray."""
    if fmt == 'geojson':
        with open(path) as f:
            return len(json.load(f)['features'])
    if fmt == 'wkt':
        with open(path) as f:
            return len(shapely.from_wkt(f.read()).geoms)
    if fmt == 'wkb':
        with open(path, 'rb') as f:
            return len(shapely.from_wkb(f.read()).geoms)
    import shapefile
    with shapefile.Reader(path) as reader:
        return len(reader)


def op_export(env):
    import emsarray
    obs, rng, model = env.obs, env.rng, env.model
    variant = pick(rng, ['guess', 'guess', 'guess-double-suffix', 'explicit', 'explicit-misleading-suffix', 'explicit-auto',
                         'unknown-extension', 'unknown-format'])
    fmt = pick(rng, ['geojson', 'wkt', 'wkb', 'shapefile'])
    ext = pick(rng, FORMAT_EXT[fmt])
    flag = pick(rng, ['-f', '--format'])
    expect_error = None
    if variant == 'guess':
        name, opts = 'geom' + ext, []
    elif variant == 'guess-double-suffix':
        other = pick(rng, [e for e in EXT_FORMAT if EXT_FORMAT[e] != fmt])
        name, opts = 'geom' + other + ext, []            # the LAST suffix decides
    elif variant == 'explicit':
        name, opts = 'geom' + ext, [flag, fmt]
    elif variant == 'explicit-misleading-suffix':
        other = pick(rng, [e for e in EXT_FORMAT if EXT_FORMAT[e] != fmt] + ['.dat', ''])
        name, opts = 'geom' + other, [flag, fmt]         # the explicit format wins over the suffix
    elif variant == 'explicit-auto':
        name, opts = 'geom' + ext, [flag, 'auto']
    elif variant == 'unknown-extension':
        name, opts = 'geom' + pick(rng, ['.txt', '.nc', '', '.xyz', '.geo', '.shapefile', '.ndjson', '.topojson', '_as_json', '_wkt', '.shpx', '.xwkb']), pick(rng, [[], [flag, 'auto']])
        expect_error = 'output extension from which no format can be guessed'
    else:
        name, opts = 'geom' + ext, [flag, pick(rng, ['kml', 'gml', 'GeoJSON', 'shp', 'json', ''])]
        expect_error = 'unknown output format'
    out_cli = os.path.join(env.tmp, 'x%02d-cli' % env.count, name)
    out_lib = os.path.join(env.tmp, 'x%02d-lib' % env.count, name)
    env.count += 1
    os.makedirs(os.path.dirname(out_cli))
    os.makedirs(os.path.dirname(out_lib))
    argv = ['export-geometry', env.inp, out_cli] + opts
    if chance(rng, 0.3):
        argv = ['export-geometry'] + opts + [env.inp, out_cli]
    obs.cls('cli:export-geometry')
    obs.cls('export:' + variant)
    obs.sig('export', model.convention, variant, fmt, name, tuple(opts), tuple(model.kinds[model.default_kind].shape))
    res = env.run(argv)
    if expect_error is not None:
        obs.cls('cli:user-error')
        expect_user_error(env, res, out_cli, 'export-geometry with an ' + expect_error)
        return
    obs.cls('export:format-guessed' if variant.startswith('guess') or variant == 'explicit-auto' else 'export:format-explicit')
    obs.cls('export:format=' + fmt)
    lib_exc, src = None, None
    try:
        with quiet_warnings():
            src = emsarray.open_dataset(env.inp)
            library_writer(fmt)(src, out_lib)
    except Exception as exc:  # noqa: BLE001
        lib_exc = exc
    finally:
        if src is not None:
            src.close()
    same = compare_with_library(env, 'export-geometry (%s, %s)' % (variant, fmt), res, out_cli, lib_exc, out_lib,
                                lambda: cliref.files_diff(out_cli, out_lib))
    if same and not model.skip_cells:
        # exit 0 => complete output: one polygon per model cell that has one
        want = sum(1 for p in model_polygons(model) if p is not None)
        try:
            got = count_geometries(out_cli, fmt)
        except Exception as exc:  # noqa: BLE001
            got = 'unreadable: %r' % (exc,)
        obs.expect(got == want, 'exported file is complete: one polygon per cell of the dataset',
                   lambda: {'format': fmt, 'got': got, 'want': want}, mech='export-incomplete')


# ---------------------------------------------------------------------------------------------------------
# user errors
# ---------------------------------------------------------------------------------------------------------

def op_user_error(env):
    obs, rng, model = env.obs, env.rng, env.model
    kind = pick(rng, ['clip:missing-geometry-file', 'clip:unsupported-geometry-file', 'clip:broken-geojson-file',
                      'clip:json-not-geometry', 'clip:too-few-numbers', 'clip:text-after-bounds', 'clip:text-after-bounds',
                      'clip:missing-input', 'points:missing-csv', 'points:csv-without-coordinate-columns',
                      'points:unknown-policy', 'export:missing-input'])
    obs.cls('cli:user-error')
    obs.cls('user-error:' + kind)
    obs.sig('user-error', model.convention, kind, tuple(model.kinds[model.default_kind].shape))
    out = env.path('never.nc')
    mech = 'user-error-exit-status'
    if kind.startswith('clip:'):
        box_text, _ = partial_box_text(env)
        if kind == 'clip:missing-geometry-file':
            arg = env.path('nothing-here.geojson')
        elif kind == 'clip:unsupported-geometry-file':
            arg = env.path('shape' + pick(rng, ['.txt', '.shp', '.wkt']))
            with open(arg, 'w') as f:
                f.write(json.dumps({'type': 'Point', 'coordinates': [1, 2]}))
        elif kind == 'clip:broken-geojson-file':
            arg = env.path('broken' + pick(rng, ['.geojson', '.json']))
            with open(arg, 'w') as f:
                f.write('{"type": "Polygon", "coordinates": [[[1, 2], [3')
        elif kind == 'clip:json-not-geometry':
            arg = pick(rng, ['{"type": "Nothing"}', '[1, 2, 3, 4]', '{"a": 1}', '{"type": "Polygon"}', json.dumps({'type': 'FeatureCollection', 'features': [{'type': 'Feature', 'properties': {}, 'geometry': {'type': 'Polygon', 'coordinates': [[[100, -30], [120, -30], [120, -10], [100, -10], [100, -30]]]}}, {'type': 'Feature', 'properties': {}, 'geometry': {'type': 'Point', 'coordinates': [140, -20]}}]})])
        elif kind == 'clip:too-few-numbers':
            arg = ','.join(box_text.split(',')[:3])
        elif kind == 'clip:missing-input':
            arg = box_text
        else:
            assert kind == 'clip:text-after-bounds'
            # a real clip box of this model followed by more text: not four comma separated numbers
            arg = box_text + pick(rng, [',5', ',1.5', 'e1', ' km', 'x', ';', ',', ' 5', ',,'])
            if cliref.parse_bounds(arg) is not None:
                raise AssertionError('composed non-bounds text is valid: %r' % (arg,))
            mech = 'bounds-regex-unanchored'
        inp = env.inp if kind != 'clip:missing-input' else env.path('no-such-input.nc')
        argv = ['clip', inp, arg, out]
    elif kind == 'points:missing-csv':
        argv = ['extract-points', env.inp, env.path('no-such.csv'), out]
    elif kind == 'points:csv-without-coordinate-columns':
        csv = env.path('columns.csv')
        with open(csv, 'w') as f:
            f.write('a,b\n1.0,2.0\n')
        argv = ['extract-points', env.inp, csv, out] + pick(rng, [[], ['-c', 'x', 'y']])
    elif kind == 'points:unknown-policy':
        csv = env.path('ok.csv')
        with open(csv, 'w') as f:
            f.write('lon,lat\n1.0,2.0\n')
        argv = ['extract-points', env.inp, csv, out, '--missing-points', pick(rng, ['ignore', 'raise', 'Error', ''])]
    else:
        out = env.path('never.geojson')
        argv = ['export-geometry', env.path('no-such-input.nc'), out]
    res = env.run(argv)
    expect_user_error(env, res, out, kind, mech=mech)
    if len(obs.samples) < 4 and kind == 'clip:text-after-bounds':
        obs.sample({'argv': env.spec.get('argv'), 'exit': res.code, 'stderr': res.stderr[-200:], 'output written': outputs_present(out)})
