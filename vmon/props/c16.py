"""C16 - the geometry cache key depends on the geometry (and the convention class) and on nothing else.

Equality classes by construction.  For one generated dataset (geometry from one rng stream, dressing from another):
  SAME key      : every edit of non-geometry content, a twin rebuilt from the spec, copies, files on disk with different data,
                  fresh interpreters under four hash seeds.  Pre-condition checked by my own fingerprint (canon.fingerprint:
                  names, dtypes, shapes, bytes, typed attribute values of the model's geometry inventory).
  DIFFERENT key : each single geometry edit (one value, dtype, shape with identical bytes, rename, attribute add / change /
                  remove) and a different convention class.

Known finding `marshal-object-identity`: hash_attributes feeds marshal.dumps(attrs, 4) to the hash; marshal sets FLAG_REF per
object depending on interning and reference counts, so equal attribute dictionaries serialise differently.  Predicate: the two
keys differ, my fingerprints of the two datasets are equal, and emsarray's own key computation with ONLY hash_attributes
replaced by a canonical serialiser (canon.canonical_cache_key) gives equal keys for the two datasets.  Anything else is a
plain violation.
"""
import os
import shutil
import tempfile

import numpy
import xarray

from ..common import Failed, quiet_warnings
from ..model import CONVENTIONS
from ..oracles import canon, fresh
from ..rng import chance, pick

ANCHORS = [
    'emsarray.operations.cache:make_cache_key',
    'emsarray.operations.cache:hash_attributes',
    'emsarray.operations.cache:hash_string',
    'emsarray.operations.cache:hash_int',
    'emsarray.conventions._base:Convention.hash_geometry',
    'emsarray.conventions.grid:CFGrid.get_all_geometry_names',
    'emsarray.conventions.arakawa_c:ArakawaC.get_all_geometry_names',
    'emsarray.conventions.ugrid:UGrid.get_all_geometry_names',
]

META = {
    'rule': ('one generated dataset per case (five conventions in rotation; geometry from the stream "geom", time/depth/data '
             'variables from "dress0"); SAME-key variants: data values changed, variable added, one / all non-geometry variables '
             'dropped, time cut to one step, global attributes added/changed/removed, non-geometry variables permuted, all '
             'variables permuted, twin rebuilt from the spec, re-dressed twin (other time length, depths, variables), shallow / '
             'deep copy, same object twice, same object after other references to its attribute values exist, same class bound '
             'manually, two netCDF files with different data reopened with emsarray.open_dataset, in-memory vs reopened when the '
             'fingerprints agree, fresh interpreters with PYTHONHASHSEED 0, 1, 4242, random; DIFFERENT-key variants: one value '
             'of a geometry variable moved by 1 ulp (index tables: another valid index), float64->float32 of float32-representable '
             'values, int->int64, dtype changed with identical bytes, shape changed with identical bytes (2-D CF grids with '
             'nj != ni), geometry variable renamed (where found by attribute), attribute added / changed / removed, trivial '
             'subclass differing only in name / only in module, parent class bound manually; distinct = (convention, variant, '
             'variable, geometry fingerprint); non-trivial = every case (at least two geometry variables)'),
    'min': {'evaluations': 2000, 'distinct': 400,
            'classes': {'dataset:cf1d': 3, 'dataset:cf2d': 3, 'dataset:shoc_simple': 3, 'dataset:shoc_standard': 3, 'dataset:ugrid': 3,
                        'same:total': 800, 'differ:total': 600,
                        'same:files-reopened': 20, 'same:twin-rebuilt': 20, 'same:redressed': 20, 'same:order-all-variables': 20,
                        'same:fresh:0': 20, 'same:fresh:1': 20, 'same:fresh:4242': 20, 'same:fresh:random': 20,
                        'differ:value-ulp': 50, 'differ:dtype-same-bytes': 20, 'differ:dtype-f32': 20, 'differ:dtype-widen-int': 5,
                        'differ:shape-same-bytes': 5, 'differ:rename': 20, 'differ:attr-add': 20, 'differ:attr-change': 20,
                        'differ:attr-remove': 20, 'differ:class-name': 20, 'differ:class-module': 20}},
    'must_reach': ['emsarray.operations.cache:make_cache_key', 'emsarray.operations.cache:hash_attributes',
                   'emsarray.conventions._base:Convention.hash_geometry',
                   'emsarray.conventions.grid:CFGrid.get_all_geometry_names',
                   'emsarray.conventions.arakawa_c:ArakawaC.get_all_geometry_names',
                   'emsarray.conventions.ugrid:UGrid.get_all_geometry_names'],
    'assumptions': ['blake2b collisions do not occur', 'netCDF4 / xarray round trip of attributes and values is faithful',
                    'a variable whose dtype is edited carries no stale encoding["dtype"] (emsarray documents that it hashes the '
                    'on-disk dtype when one is recorded)',
                    'attribute ORDER within one variable is not varied (the statement does not say whether it is part of "attributes")',
                    'for non-attribute geometry edits the key must differ also when attributes are serialised canonically: a key '
                    'that differs only through marshal reference bits is noise, not dependence on the edit',
                    'in-memory vs reopened dataset is asserted only when my fingerprint says the geometry variables are identical'],
}

SAMPLED = set()


# ---------------------------------------------------------------------------------------------------------------------
# building variants (xarray containers only)
# ---------------------------------------------------------------------------------------------------------------------

def rebuild(ds, *, replace=None, drop=(), add=None, rename=None, attrs=None, order=None):
    """A new Dataset assembled variable by variable; insertion order = `order` (default: original order)."""
    replace, rename = replace or {}, rename or {}
    out = xarray.Dataset(attrs=dict(ds.attrs) if attrs is None else dict(attrs))
    for n in (order if order is not None else list(ds.variables)):
        if n in drop:
            continue
        var = replace[n] if n in replace else ds.variables[n].copy(deep=True)
        new_name = rename.get(n, n)
        if n in ds.coords:
            out = out.assign_coords({new_name: var})
        else:
            out = out.assign({new_name: var})
    for n, var in (add or {}).items():
        out = out.assign({n: var})
    return out


def new_var(old, *, values=None, dims=None, attrs=None, drop_encoding_dtype=False):
    var = xarray.Variable(old.dims if dims is None else dims, old.values.copy() if values is None else values,
                          dict(old.attrs) if attrs is None else attrs)
    enc = dict(old.encoding)
    if drop_encoding_dtype:
        enc.pop('dtype', None)
        enc.pop('_FillValue', None)
    var.encoding = enc
    return var


def with_variable(ds, name, **kw):
    return rebuild(ds, replace={name: new_var(ds.variables[name], **kw)})


INDEX_TABLES = {'Mesh2', 'face_nodes', 'edge_nodes', 'face_edges', 'edge_faces', 'face_faces'}


class Case:
    """Everything known about one base dataset."""

    def __init__(self, obs, ctx, spec, rng):
        self.obs, self.ctx, self.spec, self.rng = obs, ctx, spec, rng
        self.conv = spec['convention']
        self.model = fresh.build_model(ctx.seed, 'C16', spec['case'], self.conv)
        self.ds = self.model.encode()
        self.names = list(self.model.geometry_names)
        self.fp = canon.fingerprint(self.ds, self.names)
        self.key = None
        self.klass = None

    # ---- calls into emsarray ---------------------------------------------------------------------------------------
    def cache_key(self, ds, what='make_cache_key'):
        from emsarray.operations.cache import make_cache_key

        def classify(exc):
            if isinstance(exc, KeyError) and exc.args == ('standard_name',) and self.conv == 'shoc_simple':
                lat = self.model.encoding['lat_name']
                before = list(ds.variables)[:list(ds.variables).index(lat)] if lat in ds.variables else list(ds.variables)
                if any(ds.variables[n].dims == ('j', 'i') and 'standard_name' not in ds.variables[n].attrs for n in before):
                    return 'shoc-simple-topology-keyerror'
            return None
        with quiet_warnings():
            return self.obs.call(what, make_cache_key, ds, mech=classify)

    def canonical(self, ds):
        with quiet_warnings():
            return canon.canonical_cache_key(ds)

    # ---- oracles ---------------------------------------------------------------------------------------------------
    def same(self, label, other, names=None, other_key=None, against=None, against_key=None):
        """`other` has the same geometry variables and convention as the base (or as `against`): equal keys demanded."""
        obs = self.obs
        left = self.ds if against is None else against
        names = self.names if names is None else names
        if canon.fingerprint(other, names) != canon.fingerprint(left, names):
            raise AssertionError('harness: variant %r does not have the same geometry variables' % label)
        ka = self.cache_key(left) if against_key is None else against_key
        kb = self.cache_key(other) if other_key is None else other_key
        if isinstance(ka, Failed) or isinstance(kb, Failed):
            return
        obs.cls('same:total')
        obs.cls('same:' + label)
        obs.sig(self.conv, 'same', label, self.fp)
        if ka == kb:
            obs.ok()
            return
        ca, cb = self.canonical(left), self.canonical(other)
        ma, mb = canon.marshal_bytes(left, names), canon.marshal_bytes(other, names)
        unequal = [n for n in ma if ma[n] != mb.get(n)][:2]
        detail = {'variant': label, 'key': ka, 'other key': kb, 'canonical keys equal': ca == cb,
                  'attributes': {n: dict(left[n].attrs) for n in unequal},
                  'marshal.dumps(attrs, 4) base': {n: ma[n] for n in unequal},
                  'marshal.dumps(attrs, 4) variant': {n: mb.get(n) for n in unequal}}
        if ca == cb:
            obs.cls('marshal:' + label)
            obs.fail('same geometry, different cache key (%s): only the marshal bytes of equal attribute dictionaries differ' % label,
                     detail, mech='marshal-object-identity')
            if 'marshal' not in SAMPLED:
                SAMPLED.add('marshal')
                obs.sample({'what': 'known finding marshal-object-identity', 'convention': self.conv, **detail})
        else:
            obs.fail('same geometry, different cache key (%s)' % label, detail, mech='cache-key-not-invariant')

    def differ(self, label, other, variable=None, attribute_edit=False, against=None, other_names=None):
        """`other` differs from the base (or `against`) in exactly the named geometry respect: different keys demanded."""
        obs = self.obs
        left = self.ds if against is None else against
        if other_names is None and canon.fingerprint(other, self.names) == canon.fingerprint(left, self.names) \
                and not label.startswith('class'):
            raise AssertionError('harness: variant %r does not differ in its geometry variables' % label)
        ka, kb = self.cache_key(left), self.cache_key(other)
        if isinstance(ka, Failed) or isinstance(kb, Failed):
            return
        obs.cls('differ:total')
        obs.cls('differ:' + label)
        obs.sig(self.conv, 'differ', label, variable, self.fp)
        detail = lambda: {'variant': label, 'variable': variable, 'key': ka, 'other key': kb}    # noqa: E731
        good = obs.expect(ka != kb, 'a single geometry edit (%s) must change the cache key' % label, detail, mech='geometry-edit-not-in-key')
        if good and not attribute_edit:
            ca, cb = self.canonical(left), self.canonical(other)
            obs.expect(ca != cb, 'the geometry edit (%s) changes the key only through marshal noise of unrelated attributes' % label,
                       detail, mech='geometry-edit-not-in-key')
        if good and label not in SAMPLED and label in ('value-ulp', 'dtype-same-bytes', 'rename'):
            SAMPLED.add(label)
            obs.sample({'what': 'single geometry edit', 'convention': self.conv, **detail()})

    def same_class(self, ds):
        """Edited datasets must still be handled by the same convention class (else the edit is not a single edit)."""
        with quiet_warnings():
            try:
                return type(ds.ems) is self.klass
            except Exception:  # noqa: BLE001
                return False


# ---------------------------------------------------------------------------------------------------------------------
# SAME-key variants
# ---------------------------------------------------------------------------------------------------------------------

def invariant_edits(c, tmpdir):
    ds, model, rng, names = c.ds, c.model, c.rng, c.names
    others = [n for n in ds.variables if n not in names]
    grid_vars = [n for n in model.variables if n in ds.data_vars]

    c.same('same-object-again', ds)
    # more references to the attribute values of the geometry variables (marshal writes FLAG_REF by reference count)
    hold = [v for n in names for v in ds.variables[n].attrs.values()]
    c.same('same-object-after-other-references', ds)
    del hold
    c.same('copy-shallow', ds.copy())
    # the same dataset held in dask arrays, split into uneven chunks along every dimension: how the bytes of a geometry
    # variable are stored in memory is not part of the geometry
    try:
        chunks = {d: max(1, (n + 1) // 2 - (1 if n > 3 else 0)) for d, n in ds.sizes.items()}
        chunked = ds.chunk(chunks)
    except Exception:  # noqa: BLE001  (dask unavailable)
        chunked = None
    if chunked is not None:
        c.obs.cls('same:dask-chunked')
        c.same('dask-chunked', chunked)
    c.same('copy-deep', ds.copy(deep=True))

    if grid_vars:
        replace = {}
        for n in grid_vars:
            old = ds.variables[n]
            vals = old.values.copy()
            vals = vals + 1 if vals.dtype.kind in 'iu' else vals * 1.5 + 1
            replace[n] = new_var(old, values=vals.astype(old.dtype))
        c.same('data-values-changed', rebuild(ds, replace=replace))
        c.same('data-variable-dropped', rebuild(ds, drop={pick(rng, grid_vars)}))
        face = model.kinds[model.default_kind]
        c.same('data-variable-added', rebuild(ds, add={'vmon_extra': xarray.Variable(face.dims, rng.random(face.shape), {'long_name': 'extra'})}))
    droppable = set(others)
    if droppable:
        c.same('all-non-geometry-dropped', rebuild(ds, drop=droppable))
    if model.time is not None and model.time['size'] > 1:
        c.same('time-cut-to-one-step', ds.isel({model.time['dim']: [0]}))
    if model.time is not None:
        # one time step picked by number: the time coordinate stays behind as a scalar coordinate
        k = int(rng.integers(model.time['size']))
        c.same('one-time-step-selected', ds.isel({model.time['dim']: k}))
    # coordinates that are not geometry: a scalar one (reference time of the run) and an auxiliary one on the grid's own
    # dimensions (cell area); they travel with every selection of variables but are no part of the geometry
    face = model.kinds[model.default_kind]
    c.same('non-geometry-coordinates-added', ds.assign_coords(
        vmon_reference=xarray.Variable((), float(rng.integers(1, 1000)), {'long_name': 'reference'}),
        vmon_area=xarray.Variable(face.dims, rng.random(face.shape), {'long_name': 'cell area', 'units': 'm2'})))
    choice = int(rng.integers(3))
    if choice == 0:
        attrs = dict(ds.attrs, history='edited by vmon', title='another title')
    elif choice == 1:
        attrs = {k: v for k, v in ds.attrs.items() if k in ('Conventions', 'ems_version')}
        attrs['institution'] = 'x' * int(rng.integers(1, 9))
    else:
        attrs = dict(ds.attrs)
        if 'UGRID' in str(attrs.get('Conventions', '')):
            attrs['Conventions'] = 'CF-1.8, ' + attrs['Conventions']
        elif 'Conventions' in attrs:
            attrs['Conventions'] = 'CF-1.10'
        else:
            attrs['comment'] = 'no conventions attribute'
    edited = rebuild(ds, attrs=attrs)
    if c.same_class(edited):
        c.same('global-attributes-edited', edited)
    if len(others) >= 2:
        slots = [n for n in ds.variables if n in others]
        perm = [slots[i] for i in rng.permutation(len(slots))]
        it = iter(perm)
        order = [next(it) if n in others else n for n in ds.variables]
        c.same('order-non-geometry-variables', rebuild(ds, order=order))
    allnames = list(ds.variables)
    c.same('order-all-variables', rebuild(ds, order=[allnames[i] for i in rng.permutation(len(allnames))]))

    twin = fresh.build_model(c.ctx.seed, 'C16', c.spec['case'], c.conv).encode()
    c.same('twin-rebuilt', twin)
    redressed = fresh.build_model(c.ctx.seed, 'C16', c.spec['case'], c.conv, dress_variant=1).encode()
    c.same('redressed', redressed)

    manual = ds.copy()
    with quiet_warnings():
        conv = c.obs.call('construct + bind', lambda: c.klass(manual))
        if not isinstance(conv, Failed):
            c.obs.call('bind', conv.bind)
            c.same('same-class-bound-manually', manual)

    # two files on disk, equal geometry, different data
    import emsarray
    pa, pb = os.path.join(tmpdir, 'a%d.nc' % c.spec['case']), os.path.join(tmpdir, 'b%d.nc' % c.spec['case'])
    with quiet_warnings():
        ds.to_netcdf(pa)
        redressed.to_netcdf(pb)
    opened = []
    try:
        with quiet_warnings():
            ra = c.obs.call('emsarray.open_dataset', emsarray.open_dataset, pa)
            rb = c.obs.call('emsarray.open_dataset', emsarray.open_dataset, pb)
        opened = [r for r in (ra, rb) if not isinstance(r, Failed)]
        if len(opened) == 2:
            c.obs.expect(type(ra.ems) is c.klass and type(rb.ems) is c.klass, 'reopened files are handled by the same convention')
            c.same('files-reopened', rb, against=ra)
            if canon.fingerprint(ra, names) == c.fp:
                c.same('memory-vs-reopened', ra)
            else:
                c.obs.cls('memory-vs-reopened-differs-by-decoding-not-asserted')
    finally:
        for r in opened:
            r.close()
        for p in (pa, pb):
            if os.path.exists(p):
                os.remove(p)


# ---------------------------------------------------------------------------------------------------------------------
# DIFFERENT-key variants
# ---------------------------------------------------------------------------------------------------------------------

def one_value_edit(var, rng, name):
    """-> new values with exactly one element changed (1 ulp for coordinates, another valid index for index tables)."""
    vals = var.values.copy()
    flat = vals.reshape(-1)
    if name in INDEX_TABLES:
        if flat.size == 0:
            return None
        finite = numpy.flatnonzero(numpy.isfinite(flat.astype(float)))
        fill = var.attrs.get('_FillValue')
        if fill is not None:
            finite = numpy.array([i for i in finite if flat[i] != fill], dtype=int)
        if finite.size == 0:
            return None
        k = int(finite[int(rng.integers(finite.size))])
        lo, hi = flat[finite].min(), flat[finite].max()
        flat[k] = flat[k] + 1 if flat[k] + 1 <= hi or lo == hi else flat[k] - 1
        return flat.reshape(vals.shape)
    if vals.dtype.kind in 'iu' and flat.size:
        # integer-typed coordinate variable (whole degrees): one value moved by one
        k = int(rng.integers(flat.size))
        flat[k] = flat[k] + 1
        return flat.reshape(vals.shape)
    if vals.dtype.kind != 'f':
        return None
    finite = numpy.flatnonzero(numpy.isfinite(flat))
    if finite.size == 0:
        return None
    k = int(finite[int(rng.integers(finite.size))])
    flat[k] = numpy.nextafter(flat[k], numpy.inf if chance(rng, 0.5) else -numpy.inf)
    return flat.reshape(vals.shape)


def sensitive_edits(c):
    ds, model, rng, names, conv = c.ds, c.model, c.rng, c.names, c.conv
    some = names if c.ctx.thorough else [names[i] for i in rng.permutation(len(names))[:3]]

    # 1. one value
    for n in some:
        vals = one_value_edit(ds.variables[n], rng, n)
        if vals is None:
            c.obs.cls('value-edit-not-applicable')
            continue
        label = 'value-index' if n in INDEX_TABLES else 'value-ulp'
        c.differ(label, with_variable(ds, n, values=vals), variable=n)

    # 2. dtype
    floats = [n for n in names if ds.variables[n].dtype == numpy.float64 and 'dtype' not in ds.variables[n].encoding]
    ints = [n for n in names if ds.variables[n].dtype.kind == 'i' and 'dtype' not in ds.variables[n].encoding]
    if floats:
        n = pick(rng, floats)
        old = ds.variables[n]
        rounded = old.values.astype(numpy.float32)
        a = with_variable(ds, n, values=rounded.astype(numpy.float64))
        b = with_variable(ds, n, values=rounded)
        if b.variables[n].dtype == numpy.float32 and numpy.array_equal(a.variables[n].values, b.variables[n].values, equal_nan=True):
            c.differ('dtype-f32', b, variable=n, against=a)
        else:
            c.obs.cls('dtype-edit-not-representable')
        # identical bytes, another type (the values are reinterpreted)
        n = pick(rng, floats)
        old = ds.variables[n]
        viewed = numpy.ascontiguousarray(old.values).view(numpy.int64)
        b = with_variable(ds, n, values=viewed)
        if b.variables[n].dtype == numpy.int64 and c.same_class(b):
            c.differ('dtype-same-bytes', b, variable=n)
    for n in ints:
        old = ds.variables[n]
        if old.dtype.itemsize < 8:
            attrs = dict(old.attrs)
            if '_FillValue' in attrs:
                attrs['_FillValue'] = numpy.int64(attrs['_FillValue'])
                label = 'dtype-widen-int-with-fill-attribute'
            else:
                label = 'dtype-widen-int'
            c.differ(label, with_variable(ds, n, values=old.values.astype(numpy.int64), attrs=attrs), variable=n)
        if old.dtype == numpy.int32 and (old.values >= 0).all() and '_FillValue' not in old.attrs:
            c.differ('dtype-same-bytes', with_variable(ds, n, values=old.values.astype(numpy.uint32)), variable=n)
            if old.ndim == 0 and old.values == 0:       # the dummy mesh variable: int32 0 and float32 0.0 share their four bytes
                c.differ('dtype-same-bytes', with_variable(ds, n, values=numpy.zeros((), dtype=numpy.float32)), variable=n)

    # 3. shape with identical bytes: 2-D CF grids, nj != ni (all geometry variables reshaped together, grid data dropped)
    if conv in ('cf2d', 'shoc_simple') and not model.encoding.get('transpose_lon'):
        nj, ni = model.kinds['face'].shape
        ydim, xdim = model.kinds['face'].dims
        if nj != ni:
            replace = {}
            for n in names:
                old = ds.variables[n]
                shape = (ni, nj) + old.shape[2:]
                replace[n] = new_var(old, values=numpy.ascontiguousarray(old.values).reshape(shape))
            drop = {n for n in ds.variables if n not in names and (ydim in ds.variables[n].dims or xdim in ds.variables[n].dims)}
            b = rebuild(ds, replace=replace, drop=drop)
            raw = lambda d: b''.join(numpy.ascontiguousarray(d.variables[n].values).tobytes() for n in names)   # noqa: E731
            if raw(b) == raw(ds) and c.same_class(b):
                c.differ('shape-same-bytes', b, variable='all')
        else:
            c.obs.cls('shape-edit-not-applicable:square')
    else:
        c.obs.cls('shape-edit-not-applicable:' + conv)

    # 4. rename (only where the convention finds the variable by attribute, not by a fixed name or a reference)
    renamable = {'cf1d': [model.encoding.get('lat_name'), model.encoding.get('lon_name')],
                 'cf2d': [model.encoding.get('lat_name'), model.encoding.get('lon_name')],
                 'shoc_simple': [model.encoding.get('lat_name'), model.encoding.get('lon_name')],
                 'ugrid': ['Mesh2'], 'shoc_standard': []}[conv]
    if renamable:
        n = pick(rng, renamable)
        new_name = n + pick(rng, ['_', '2', 'x'])
        b = rebuild(ds, rename={n: new_name})
        other_names = [new_name if m == n else m for m in names]
        if c.same_class(b) and canon.fingerprint(b.rename_vars({new_name: n}), names) == c.fp:
            c.differ('rename', b, variable=n, other_names=other_names)
            # ... and renaming is the only difference: the key of the renamed dataset equals that of a rebuilt renamed twin
            c.same('renamed-twin', rebuild(ds, rename={n: new_name}), names=other_names, against=b)
    else:
        c.obs.cls('rename-not-applicable:' + conv)

    # 5. attributes of geometry variables
    for n in some:
        old = ds.variables[n]
        # the attribute name is varied too (plain, underscore-prefixed as netCDF-Java / xarray internals write them, ...)
        aname = pick(rng, ['vmon_comment', '_vmon_private', '_CoordinateAxisType', 'Comment', 'valid_min'])
        c.obs.cls('attr-name:' + ('underscore' if aname.startswith('_') else 'plain'))
        added = with_variable(ds, n, attrs={**old.attrs, aname: 'a'})
        c.differ('attr-add', added, variable=n, attribute_edit=True)
        changed = with_variable(ds, n, attrs={**old.attrs, aname: pick(rng, ['b', 'a ', 'A', 'aa'])})
        c.differ('attr-change', changed, variable=n, attribute_edit=True, against=added)
        c.differ('attr-remove', with_variable(added, n, attrs=dict(old.attrs)), variable=n, attribute_edit=True, against=added)
        # value of an attribute changes its type only: 1 -> 1.0, '1'
        typed = with_variable(ds, n, attrs=dict(old.attrs, vmon_number=numpy.int32(1)))
        retyped = with_variable(ds, n, attrs=dict(old.attrs, vmon_number=pick(rng, [numpy.float32(1), '1', numpy.int32(2)])))
        c.differ('attr-change', retyped, variable=n, attribute_edit=True, against=typed)
        removable = [k for k in old.attrs if k in ('long_name',) or (k == 'units' and 'standard_name' in old.attrs and conv != 'ugrid')]
        if removable:
            k = pick(rng, removable)
            b = with_variable(ds, n, attrs={a: v for a, v in old.attrs.items() if a != k})
            if c.same_class(b):
                c.differ('attr-remove', b, variable=n, attribute_edit=True)
                b2 = with_variable(ds, n, attrs={a: (v + ' ' if a == k else v) for a, v in old.attrs.items()})
                if c.same_class(b2):
                    c.differ('attr-change', b2, variable=n, attribute_edit=True)

    # 6. another convention class on the same dataset
    klass = c.klass
    variants = [('class-name', type('Sub' + klass.__name__, (klass,), {'__module__': klass.__module__})),
                ('class-module', type(klass.__name__, (klass,), {'__module__': __name__}))]
    if conv == 'shoc_simple':
        from emsarray.conventions import CFGrid2D
        variants.append(('class-parent', CFGrid2D))
    for label, other_class in variants:
        target = ds.copy()
        with quiet_warnings():
            conv_obj = c.obs.call('construct ' + label, lambda: other_class(target))
            if isinstance(conv_obj, Failed):
                continue
            c.obs.call('bind', conv_obj.bind)
            inventory = sorted(str(n) for n in conv_obj.get_all_geometry_names())
        if inventory != sorted(c.inventory):
            c.obs.cls('class-edit-changes-inventory-not-asserted')
            continue
        c.differ(label, target, variable=other_class.__module__ + '.' + other_class.__name__)


# ---------------------------------------------------------------------------------------------------------------------

def one_dataset(obs, ctx, rng, spec, pending, tmpdir):
    c = Case(obs, ctx, spec, rng)
    obs.cls('dataset:' + c.conv)
    key = c.cache_key(c.ds, 'make_cache_key (first call on a fresh dataset)')
    if isinstance(key, Failed):
        return
    c.key = key
    c.klass = type(c.ds.ems)
    obs.expect(c.klass.__name__ == c.model.expected_class, 'generated dataset handled by its own convention')
    obs.expect(isinstance(key, str) and len(key) == 64 and all(ch in '0123456789abcdef' for ch in key),
               'cache key is a 64 character hex string (safe in a file name)', lambda: {'key': key})
    with quiet_warnings():
        inventory = obs.call('get_all_geometry_names', c.ds.ems.get_all_geometry_names)
    if isinstance(inventory, Failed):
        return
    c.inventory = [str(n) for n in inventory]
    missing_from_inventory = sorted(set(c.names) - set(c.inventory))
    if missing_from_inventory:
        # A variable the generated file uses as geometry (the model built the cells from it) is not part of what
        # emsarray hashes: a change to it cannot change the key - which is what the property forbids.
        obs.fail('a geometry variable of the dataset is not part of the hashed geometry inventory',
                 {'missing': missing_from_inventory, 'emsarray': sorted(c.inventory), 'model': sorted(c.names), 'convention': c.conv},
                 mech='geometry-variable-not-hashed')
        return
    if sorted(c.inventory) != sorted(c.names):
        obs.cls('inventory-disagreement-reported-not-asserted')
        if not any(r.startswith('geometry inventory') for r in obs.inconclusive):
            obs.inconclusive.append('geometry inventory: emsarray get_all_geometry_names() %r, model %r (%s) - edits cannot be '
                                    'classified, nothing asserted on such datasets' % (sorted(c.inventory), sorted(c.names), c.conv))
        obs.extra.setdefault('inventory_disagreements', [])
        if len(obs.extra['inventory_disagreements']) < 5:
            obs.extra['inventory_disagreements'].append({'case': spec, 'emsarray': sorted(c.inventory), 'model': sorted(c.names),
                                                         'encoding': c.model.describe()['encoding']})
        return      # edits are classified by the model's inventory: without agreement nothing is asserted on this dataset
    canonical = c.canonical(c.model.encode())
    pending.append((dict(spec), key, canonical, c.fp))
    invariant_edits(c, tmpdir)
    sensitive_edits(c)
    if 'case' not in SAMPLED:
        SAMPLED.add('case')
        obs.sample({'what': 'base dataset', 'convention': c.conv, 'geometry variables': c.names, 'key': key,
                    'kinds': {k: list(v.shape) for k, v in c.model.kinds.items()}})


def compare_fresh(obs, ctx, pending):
    import emsarray
    if not pending:
        return
    request = {'seed': ctx.seed, 'prop': 'C16', 'want': ['key'],
               'specs': [{'id': i, 'case': s['case'], 'convention': s['convention']} for i, (s, _, _, _) in enumerate(pending)]}
    answers = {}
    for hashseed in fresh.HASHSEEDS:
        response, error = fresh.run_fresh(request, hashseed)
        if error:
            obs.inconclusive.append(error)
            continue
        if response.get('emsarray_file') != emsarray.__file__:
            obs.inconclusive.append('fresh interpreter imported %s, the monitor %s' % (response.get('emsarray_file'), emsarray.__file__))
            continue
        answers[hashseed] = response['results']
    for i, (spec, key, canonical, fp) in enumerate(pending):
        ctx.run_case(dict(spec, part='fresh'), _compare_fresh_one, obs, {h: r.get(str(i), {}) for h, r in answers.items()}, key, canonical, fp, spec)


def _compare_fresh_one(obs, by_seed, key, canonical, fp, spec):
    for hashseed, res in by_seed.items():
        obs.evaluation()
        if 'error' in res:
            mech = 'shoc-simple-topology-keyerror' if "KeyError: 'standard_name'" in res['error'] else None
            obs.fail('fresh interpreter: unexpected exception from make_cache_key: ' + res['error'], {'hashseed': hashseed}, mech=mech)
            continue
        if res.get('fp') != fp:
            raise AssertionError('harness: the dataset regenerated in a fresh interpreter (PYTHONHASHSEED=%s) has another geometry' % hashseed)
        obs.cls('same:total')
        obs.cls('same:fresh:' + hashseed)
        obs.sig(spec['convention'], 'same', 'fresh:' + hashseed, fp)
        for label, there in (('first key', res.get('key')), ('second key of the same dataset', res.get('key_again'))):
            if there == key:
                obs.ok()
                continue
            detail = {'hashseed': hashseed, 'which': label, 'key here': key, 'key there': there,
                      'canonical here': canonical, 'canonical there': res.get('canon')}
            if res.get('canon') == canonical:
                obs.cls('marshal:fresh:' + hashseed)
                obs.fail('same geometry, different cache key in a fresh interpreter: only the marshal bytes of equal attribute '
                         'dictionaries differ', detail, mech='marshal-object-identity')
            else:
                obs.fail('same geometry, different cache key in a fresh interpreter (PYTHONHASHSEED=%s)' % hashseed, detail,
                         mech='cache-key-depends-on-process')


def large_geometry_case(obs, rng, spec):
    """A curvilinear grid whose coordinate variables are larger than 1 MiB each (block-wise hashing must reach the end)."""
    import xarray
    from emsarray.operations.cache import make_cache_key
    nj, ni = 380 + int(rng.integers(0, 30)), 400
    jj, ii = numpy.meshgrid(numpy.arange(nj, dtype=float), numpy.arange(ni, dtype=float), indexing='ij')
    lon = 110 + 0.01 * ii + 0.001 * jj
    lat = -35 + 0.01 * jj - 0.001 * ii

    def build(lon, lat, data):
        return xarray.Dataset({'eta': (('y', 'x'), data)},
                              coords={'lat': (('y', 'x'), lat, {'units': 'degrees_north', 'standard_name': 'latitude'}),
                                      'lon': (('y', 'x'), lon, {'units': 'degrees_east', 'standard_name': 'longitude'})})
    obs.cls('dataset:geometry-variable-larger-than-1MiB')
    obs.sig('large', nj, ni)
    with quiet_warnings():
        base = obs.call('make_cache_key (large)', make_cache_key, build(lon, lat, numpy.zeros((nj, ni))))
        same = obs.call('make_cache_key (large, other data)', make_cache_key, build(lon.copy(), lat.copy(), numpy.ones((nj, ni))))
        edited = lat.copy()
        j, i = nj - 1 - int(rng.integers(0, 5)), int(rng.integers(ni))
        edited[j, i] = numpy.nextafter(edited[j, i], numpy.inf)
        other = obs.call('make_cache_key (large, one value near the end changed by 1 ulp)', make_cache_key, build(lon.copy(), edited, numpy.zeros((nj, ni))))
    if any(isinstance(k, Failed) for k in (base, same, other)):
        return
    obs.expect(base == same, 'same geometry, different data: same key (large grid)', mech='cache-key-not-invariant')
    obs.expect(base != other, 'a 1-ulp change near the END of a > 1 MiB geometry variable changes the key',
               lambda: {'shape': [nj, ni], 'edited': [j, i]}, mech='geometry-edit-not-in-key')


def run(ctx):
    obs = ctx.obs
    obs.extra['meta'] = META
    tmpdir = tempfile.mkdtemp(prefix='c16-')
    pending = []
    try:
        for case, rng in ctx.cases(ctx.n(160, 4000)):
            conv = CONVENTIONS[case % len(CONVENTIONS)]
            spec = {'case': case, 'convention': conv}
            ctx.run_case(spec, one_dataset, obs, ctx, rng, spec, pending, tmpdir)
        total = ctx.n(160, 4000)
        for extra in range(ctx.n(1, 4)):
            case = total + extra
            if (ctx.only_case is None and case % ctx.nshards == ctx.shard) or ctx.only_case == case:
                from ..rng import gen
                spec = {'case': case, 'large': True}
                ctx.run_case(spec, large_geometry_case, obs, gen(ctx.seed, 'C16', case, 'large'), spec)
        compare_fresh(obs, ctx, pending)
    finally:
        shutil.rmtree(tmpdir, ignore_errors=True)
