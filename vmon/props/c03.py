"""C03 - flattening and winding variables are exact inverses."""
import itertools

import numpy
import xarray

from .. import contracts
from ..common import Failed, nan_equal, quiet_warnings
from ..model import CONVENTIONS, make_dressed

ANCHORS = [
    'emsarray.utils:move_dimensions_to_end',
    'emsarray.utils:ravel_dimensions',
    'emsarray.utils:wind_dimension',
    'emsarray.utils:splice_tuple',
    'emsarray.utils:find_unused_dimension',
    'emsarray.conventions._base:DimensionConvention.get_grid_kind',
    'emsarray.conventions._base:DimensionConvention.ravel',
    'emsarray.conventions._base:DimensionConvention.wind',
]

META = {
    'rule': ('all conventions x all grid kinds x generated variables with 0-3 extra dimensions in random permutations of '
             'dimension order (grid dimensions anywhere, not adjacent) x ravel with default/custom/colliding linear name x '
             'wind by default position, axis number and dimension name with the linear axis at every position; oracle = the '
             'abstract model\'s canonical array canon[extras..., n]; distinct = (convention, kind, dims order, mode); '
             'non-trivial = grid with >= 2 cells'),
    'min': {'evaluations': 1500, 'distinct': 100,
            'classes': {'grid-dims-not-last': 20, 'wind:axis': 50, 'wind:name': 50, 'wind:default': 50,
                        'non-grid-refused': 20, 'default-name-collision': 3, 'partial-grid-refused': 20, 'alias:make_linear': 20},
            'contracts': {'ravel_dimensions': 200, 'wind_dimension': 200}},
    'must_reach': ['emsarray.utils:ravel_dimensions', 'emsarray.utils:wind_dimension'],
    'assumptions': ['numpy transpose/reshape semantics', 'xarray DataArray container semantics'],
}


def run(ctx):
    obs = ctx.obs
    obs.extra['meta'] = META
    from ..model import set_declaration_order_varies
    set_declaration_order_varies(True)     # some datasets declare the x dimension before y
    contracts.attach_all(obs, only={'ravel_dimensions', 'wind_dimension'})
    if ctx.thorough and ctx.shard == 0 and ctx.only_case is None:
        from ..suite_contracts import run_repo_suite_with_contracts
        run_repo_suite_with_contracts(obs, only='ravel_dimensions,wind_dimension')
    total = ctx.n(600, 60000)
    for case, rng in ctx.cases(total):
        conv = CONVENTIONS[case % len(CONVENTIONS)]
        spec = {'case': case, 'convention': conv}
        ctx.run_case(spec, one_dataset, obs, rng, conv, spec, ctx.workdir)


def one_dataset(obs, rng, conv, spec, workdir=None):
    kw = {}
    if conv in ('cf1d', 'cf2d') and rng.random() < 0.3:
        kw = {}
    model = make_dressed(rng, conv, dress=dict(per_kind=(1, 3), nongrid=1, time=True if rng.random() < 0.8 else None,
                                               index_dim=rng.random() < 0.4, max_extra=4), **kw)
    ds, source = model.materialise(rng, workdir)
    obs.cls('source:' + source)
    spec['source'] = source
    with quiet_warnings():
        ems = obs.call('dataset.ems', lambda: ds.ems)
    if isinstance(ems, Failed):
        return
    spec['model'] = model.describe()
    for name, var in model.variables.items():
        da = ds[name]
        if var.kind is None:
            r = obs.raises('ravel(non-grid variable)', ems.ravel, da, exc_types=(ValueError,), mech='non-grid-not-refused')
            if r is not None:
                obs.cls('non-grid-refused')
            continue
        kind = model.kinds[var.kind]
        token = model.kind_token(var.kind)
        grid_pos = [da.dims.index(d) for d in kind.dims]
        if grid_pos != list(range(len(da.dims) - len(kind.dims), len(da.dims))):
            obs.cls('grid-dims-not-last')
        want_vals = var.expected(var.canon, source)          # canon[extras..., n]
        want_dims = var.extra_dims
        # ---- ravel, default name -------------------------------------------------------
        flat = obs.call('ravel', ems.ravel, da)
        if isinstance(flat, Failed):
            continue
        if kind.size >= 2:
            obs.sig(conv, var.kind, var.dims, 'ravel')
        ok = obs.expect(tuple(flat.dims[:-1]) == want_dims and nan_equal(flat.values, want_vals),
                        'ravel(v): other dims in original order, values of cell n at position n',
                        lambda: {'var': name, 'dims': da.dims, 'out_dims': flat.dims, 'got': flat.values, 'want': want_vals})
        obs.expect(flat.values.dtype == da.dtype, 'ravel must not alter the dtype', lambda: {'got': str(flat.values.dtype), 'want': str(da.dtype)})
        lin = flat.dims[-1]
        obs.expect(lin not in da.dims, 'default linear dimension name must be unused', lambda: {'lin': lin, 'dims': da.dims})
        if 'index' in da.dims:
            obs.cls('default-name-collision')
            obs.expect(str(lin).startswith('index_'), 'default name falls back to index_N', lambda: {'lin': lin})
        else:
            obs.expect(lin == 'index', 'default linear dimension is "index"', lambda: {'lin': lin})
        if len(obs.samples) < 3 and ok and len(da.dims) > 2:
            obs.sample({'convention': conv, 'variable': name, 'dims': da.dims, 'shape': da.shape,
                        'ravel dims': flat.dims, 'ravel shape': flat.shape, 'first values': flat.values.ravel()[:5]})
        # ---- ravel, custom name ----------------------------------------------------------
        custom = 'cells_%d' % int(rng.integers(100))
        flat2 = obs.call('ravel(linear_dimension=)', ems.ravel, da, linear_dimension=custom)
        if not isinstance(flat2, Failed):
            obs.expect(tuple(flat2.dims) == want_dims + (custom,) and nan_equal(flat2.values, want_vals),
                       'ravel with custom linear dimension name', lambda: {'out_dims': flat2.dims})
        # ---- ravel, colliding custom name: may be refused; a returned result must hold the right values
        if var.extra and rng.random() < 0.5:
            clash = var.extra[0][0]
            obs.evaluations += 1
            try:
                flat3 = ems.ravel(da, linear_dimension=clash)
            except Exception:  # noqa: BLE001
                obs.cls('colliding-name-refused')
            else:
                obs.cls('colliding-name-accepted')
                obs.expect(nan_equal(numpy.asarray(flat3.values), want_vals), 'ravel with colliding name returned altered values')
        # ---- ravel, custom name equal to one of the grid dimensions that are being flattened away: the old dimension is gone
        # from the result, so there is nothing left to collide with
        if rng.random() < 0.3:
            own = kind.dims[int(rng.integers(len(kind.dims)))]
            flat4 = obs.call('ravel(linear_dimension=<a flattened grid dimension>)', ems.ravel, da, linear_dimension=own,
                             mech='flattened-dimension-name-refused')
            if not isinstance(flat4, Failed):
                obs.cls('linear-name-of-a-flattened-dimension')
                obs.expect(tuple(flat4.dims) == want_dims + (own,) and nan_equal(flat4.values, want_vals),
                           'ravel with the name of a flattened grid dimension as linear dimension', lambda: {'out_dims': flat4.dims, 'name': own},
                           mech='flattened-dimension-name')
                back4 = obs.call('wind(ravel(v, linear_dimension=<grid dimension>))', ems.wind, flat4, grid_kind=token, linear_dimension=own)
                if not isinstance(back4, Failed):
                    obs.expect(tuple(back4.dims) == want_dims + kind.dims and nan_equal(back4.values, da.transpose(*(want_dims + kind.dims)).values),
                               'winding by that name restores the variable', mech='flattened-dimension-name')
        # ---- wind(ravel(v)) ------------------------------------------------------------------
        wound = obs.call('wind(ravel)', ems.wind, flat, grid_kind=token)
        if not isinstance(wound, Failed):
            restored_dims = want_dims + kind.dims
            restored = want_vals.reshape(tuple(s for _, s in var.extra) + kind.shape)
            obs.expect(tuple(wound.dims) == restored_dims and nan_equal(wound.values, restored),
                       'wind(ravel(v)) restores v with grid dims in convention order, others untouched',
                       lambda: {'var': name, 'got_dims': wound.dims, 'want_dims': restored_dims})
            # and it equals the original variable transposed (the statement of the property, read off emsarray's own input)
            obs.expect(nan_equal(wound.values, da.transpose(*restored_dims).values), 'wind(ravel(v)) == v.transpose(others, grid)')
        if var.kind == model.default_kind:
            w2 = obs.call('wind(default kind)', ems.wind, flat)
            if not isinstance(w2, Failed):
                obs.expect(tuple(w2.dims) == want_dims + kind.dims, 'wind with default grid kind')
        # ---- the deprecated alias make_linear(v) is ravel(v) -------------------------------------
        if rng.random() < 0.3:
            import warnings as _w
            with _w.catch_warnings():
                _w.simplefilter('ignore')
                alias = obs.call('make_linear (deprecated alias)', ems.make_linear, da)
            if not isinstance(alias, Failed):
                obs.cls('alias:make_linear')
                obs.expect(tuple(alias.dims) == tuple(flat.dims) and nan_equal(alias.values, want_vals) and alias.values.dtype == da.dtype,
                           'make_linear(v) == ravel(v)', lambda: {'var': name, 'got_dims': alias.dims, 'want_dims': flat.dims},
                           mech='alias-differs')
    # ---- a variable that has only SOME of the dimensions of a grid is not defined on any grid: refused -----------
    for kname, kind in model.kinds.items():
        if len(kind.dims) < 2:
            continue
        keep = int(rng.integers(len(kind.dims)))
        dims = [kind.dims[keep]]
        others = [k for k in model.kinds.values() if k is not kind and len(k.dims) == 2]
        if others and rng.random() < 0.5:
            # one dimension of this grid and one of another grid (Arakawa C): still no complete grid
            other = others[int(rng.integers(len(others)))]
            dims.append(other.dims[1 - keep])
        if rng.random() < 0.5:
            dims.insert(int(rng.integers(len(dims) + 1)), 'extra_axis')
        shape = [3 if d == 'extra_axis' else int(ds.sizes[d]) for d in dims]
        partial = xarray.DataArray(model.fresh_ids(tuple(shape)), dims=dims)
        supersets = [k for k in model.kinds.values() if set(k.dims) <= set(dims)]
        if supersets:
            continue
        r1 = obs.raises('get_grid_kind(variable with only part of a grid)', ems.get_grid_kind, partial, exc_types=(ValueError,),
                        mech='non-grid-not-refused')
        r2 = obs.raises('ravel(variable with only part of a grid)', ems.ravel, partial, exc_types=(ValueError,),
                        mech='non-grid-not-refused')
        if r1 is not None and r2 is not None:
            obs.cls('partial-grid-refused')
    # ---- winding arbitrary linear data -----------------------------------------------------------
    for kname, kind in model.kinds.items():
        token = model.kind_token(kname)
        nother = int(rng.integers(0, 3))
        others = [('a', int(rng.integers(1, 4))), ('b', int(rng.integers(2, 4)))][:nother]
        for pos in range(nother + 1):
            dims = [d for d, _ in others]
            dims.insert(pos, 'lin')
            shape = [s for _, s in others]
            shape.insert(pos, kind.size)
            data = model.fresh_ids(tuple(shape))
            if rng.random() < 0.3:
                data = numpy.where(rng.random(data.shape) < 0.2, numpy.nan, data)
            layout = ['C', 'F', 'strided'][int(rng.integers(3))]
            if layout == 'F':
                data = numpy.asfortranarray(data)            # column-major buffer (e.g. the transpose of a ravel result)
            elif layout == 'strided' and data.ndim >= 1:
                big = numpy.repeat(data, 2, axis=-1)
                data = big[..., ::2]                         # non-contiguous view
            obs.cls('wind:memory-layout-' + layout)
            x = xarray.DataArray(data, dims=dims)
            mode = ['axis', 'name', 'default'][int(rng.integers(3))] if pos == nother else ['axis', 'name'][int(rng.integers(2))]
            obs.cls('wind:' + mode)
            if mode == 'axis':
                axis = pos if rng.random() < 0.5 else pos - len(dims)
                w = obs.call('wind(axis=)', ems.wind, x, grid_kind=token, axis=axis)
            elif mode == 'name':
                w = obs.call('wind(linear_dimension=)', ems.wind, x, grid_kind=token, linear_dimension='lin')
            else:
                w = obs.call('wind(default axis)', ems.wind, x, grid_kind=token)
            if isinstance(w, Failed):
                continue
            if kind.size >= 2:
                obs.sig(conv, kname, tuple(dims), mode, kind.shape)
            want_dims = tuple(dims[:pos]) + kind.dims + tuple(dims[pos + 1:])
            want = data.reshape(tuple(shape[:pos]) + kind.shape + tuple(shape[pos + 1:]))
            good = obs.expect(tuple(w.dims) == want_dims and nan_equal(w.values, want),
                              'wind(x): linear axis replaced in place by the grid dimensions, row-major',
                              lambda: {'kind': kname, 'dims': dims, 'mode': mode, 'got_dims': w.dims, 'want_dims': want_dims})
            if not good:
                continue
            # element-wise: cell n of x sits at the model's multi-index of n
            n = int(rng.integers(kind.size))
            sel = {d: m for d, m in zip(kind.dims, kind.multi(n))}
            obs.expect(nan_equal(w.isel(sel).values, x.isel(lin=n).values), 'wound value of cell n sits at native(n)')
            back = obs.call('ravel(wind(x))', ems.ravel, w)
            if not isinstance(back, Failed):
                moved = numpy.moveaxis(data, pos, -1)
                obs.expect(tuple(back.dims[:-1]) == tuple(d for d in dims if d != 'lin') and nan_equal(back.values, moved),
                           'ravel(wind(x)) == x with the linear axis moved last')
