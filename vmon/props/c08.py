"""C08 - clipping keeps every selected value and blanks everything else."""
from . import clipwork

ANCHORS = [
    'emsarray.masking:mask_grid_dataset',
    'emsarray.masking:mask_grid_data_array',
    'emsarray.masking:calculate_grid_mask_bounds',
    'emsarray.masking:find_fill_value',
    'emsarray.conventions.ugrid:UGrid.apply_clip_mask',
    'emsarray.conventions.grid:CFGrid.apply_clip_mask',
    'emsarray.conventions.arakawa_c:ArakawaC.apply_clip_mask',
    'emsarray.conventions._base:Convention.clip',
    'emsarray.utils:dataset_like',
    'emsarray.utils:disable_default_fill_value',
    'emsarray.utils:to_netcdf_with_fixes',
]

META = {
    'totals': (240, 16000),
    'rule': ('generated datasets of all conventions (in memory, or written to netCDF and reopened) with float / float32 / int32 / '
             'int16+_FillValue / int32+missing_value variables on every grid kind and on no grid, spatial dimensions in any position; '
             'meshes cycling through all 16 subsets of optional connectivity; clip geometries of every class x buffer 0..2; masks applied '
             'directly (clip) or saved to netCDF, reloaded and applied to a twin dataset with the same geometry and different ids; '
             'oracle = brute-force GEOS selection + own dilation / node-sharing + the model\'s canonical arrays; '
             'distinct = (convention, shape, holes, geometry, buffer, history, source, variable zoo)'),
    'min': {'evaluations': 400, 'distinct': 150,
            'classes': {'history:direct': 50, 'history:via-file': 30, 'history:mask-reused': 15, 'source:disk': 20, 'source:memory': 50,
                        'var:face:maskable': 100, 'var:no-grid': 50, 'unmaskable-cropped-unaltered': 10,
                        'var:integer-with-_FillValue': 5, 'var:integer-with-missing_value': 5, 'var:edge:maskable': 5, 'var:node:maskable': 10}},
    'must_reach': ['emsarray.masking:mask_grid_dataset', 'emsarray.masking:find_fill_value', 'emsarray.conventions.ugrid:UGrid.apply_clip_mask'],
    'assumptions': ['values compared numerically after CF decoding (an integer variable with a declared fill value may come back as float with NaN)',
                    'an empty selection is not asserted (emsarray refuses empty masks)'],
}


def run(ctx):
    clipwork.run(ctx, 'values', META)
