"""./check entry point: shard a property's workload over worker processes, merge what the monitors
observed, apply the committed known-findings list, write evidence, print the verdict."""
import argparse
import collections
import json
import os
import shutil
import subprocess
import sys
import tempfile
import time

from . import VERIF, findings, probes
from .rng import base_seed

WATCHDOG = {'quick': 15 * 60, 'thorough': 90 * 60}


def main(argv=None):
    ap = argparse.ArgumentParser(prog='check')
    ap.add_argument('prop')
    ap.add_argument('--tier', default=os.environ.get('VERIF_TIER') or 'quick', choices=['quick', 'thorough'])
    ap.add_argument('--replay', default=None)
    ap.add_argument('--jobs', type=int, default=int(os.environ.get('VERIF_JOBS', '0')) or min(16, os.cpu_count() or 4))
    opts = ap.parse_args(argv)
    prop = opts.prop.upper()
    seed = base_seed()
    tier = opts.tier
    only_case = None
    if opts.replay:
        with open(opts.replay) as f:
            rep = json.load(f)
        prop, seed, tier = rep['property'], int(rep['seed']), rep['tier']
        only_case = int(rep['case_number'])
        opts.jobs = 1

    t0 = time.time()
    work = tempfile.mkdtemp(prefix='%s-' % prop, dir=os.path.join(VERIF, '.work'))
    env = dict(os.environ)
    env.setdefault('PYTHONHASHSEED', '0')
    env['TMPDIR'] = work
    procs = []
    for shard in range(opts.jobs):
        out = os.path.join(work, 'shard%d.json' % shard)
        cmd = [sys.executable, '-m', 'vmon.worker', '--prop', prop, '--tier', tier, '--seed', str(seed),
               '--shard', str(shard), '--nshards', str(opts.jobs), '--out', out]
        if only_case is not None:
            cmd += ['--only-case', str(only_case)]
        log = open(os.path.join(work, 'shard%d.log' % shard), 'w')
        procs.append((shard, out, subprocess.Popen(cmd, env=env, stdout=log, stderr=subprocess.STDOUT, cwd=VERIF), log))

    deadline = t0 + WATCHDOG[tier]
    results, inconclusive = [], []
    for shard, out, proc, log in procs:
        try:
            proc.wait(timeout=max(1.0, deadline - time.time()))
        except subprocess.TimeoutExpired:
            proc.kill()
            proc.wait()
            inconclusive.append('watchdog: shard %d exceeded %d s' % (shard, WATCHDOG[tier]))
        log.close()
        try:
            with open(out) as f:
                results.append(json.load(f))
        except Exception:  # noqa: BLE001
            tail = ''
            try:
                with open(log.name) as f:
                    tail = f.read()[-1500:]
            except OSError:
                pass
            inconclusive.append('shard %d produced no result (exit %s): %s' % (shard, proc.returncode, tail))

    verdict = merge_and_report(prop, tier, seed, results, inconclusive, time.time() - t0, replaying=only_case is not None)
    shutil.rmtree(work, ignore_errors=True)
    return verdict


def merge_and_report(prop, tier, seed, results, inconclusive, wall, replaying=False):
    ev = collections.Counter()
    classes, expected_errors, contracts, mech_counts = (collections.Counter() for _ in range(4))
    sigs, samples, violations, harness = set(), [], [], []
    meta, extra = {}, {}
    cases_run = 0
    for r in results:
        ev['evaluations'] += r['evaluations']
        ev['comparisons'] += r['comparisons']
        ev['violations'] += r['violation_count']
        classes.update(r['classes'])
        expected_errors.update(r['expected_errors'])
        contracts.update(r['contracts'])
        mech_counts.update(r['mech_counts'])
        sigs.update(r['sigs'])
        cases_run += r.get('cases_run', 0)
        for s in r['samples']:
            if len(samples) < 5:
                samples.append(s)
        violations.extend(r['violations'])
        harness.extend(r['harness_errors'])
        inconclusive.extend(r['inconclusive'])
        for k, v in (r.get('extra') or {}).items():
            if k == 'meta':
                meta = v
            elif isinstance(v, (int, float)) and not isinstance(v, bool):
                extra[k] = extra.get(k, 0) + v
            else:
                extra.setdefault(k, v)
    reach = probes.merge_reach([r.get('reach', {}) for r in results])
    reach_errors = sorted({e for r in results for e in r.get('reach_errors', [])})
    engine = next((r.get('contract_engine') for r in results if r.get('contract_engine')), None)
    src = sorted({r.get('emsarray_file', '?') for r in results})

    for h in harness:
        if 'error' in h:
            inconclusive.append('harness-error in %s: %s' % (h['where'], h['error']))
    if harness:
        print('HARNESS-ERRORS %d (first: %s)' % (len(harness), json.dumps(harness[0])[:1500]), file=sys.stderr)

    # minimum observation counters: a monitor that saw nothing decides nothing
    minimum = meta.get('min', {})
    if not replaying:
        if ev['evaluations'] < minimum.get('evaluations', 1):
            inconclusive.append('only %d evaluations (< %d)' % (ev['evaluations'], minimum.get('evaluations', 1)))
        if len(sigs) < minimum.get('distinct', 2):
            inconclusive.append('only %d distinct non-trivial cases (< %d)' % (len(sigs), minimum.get('distinct', 2)))
        for cname, cmin in minimum.get('classes', {}).items():
            if classes.get(cname, 0) < cmin:
                inconclusive.append('input class %r observed %d times (< %d)' % (cname, classes.get(cname, 0), cmin))
        for cname, cmin in minimum.get('contracts', {}).items():
            if contracts.get(cname, 0) < cmin:
                inconclusive.append('contract %r evaluated %d times (< %d)' % (cname, contracts.get(cname, 0), cmin))
        for spec in meta.get('must_reach', []):
            if reach.get(spec, {}).get('calls', 0) == 0:
                inconclusive.append('anchored function never entered: ' + spec)
        for err in reach_errors:
            inconclusive.append('reach monitor: ' + err)

    # known findings: only a violation whose mechanism is listed open is downgraded
    listed = findings.open_findings(prop)
    known = collections.Counter()
    fresh = []
    for v in violations:
        if v.get('mech') in listed:
            known[v['mech']] += 1
        else:
            fresh.append(v)
    known_total = sum(n for m, n in mech_counts.items() if m in listed)
    fresh_total = ev['violations'] - known_total

    replay_paths = []
    if fresh:
        rdir = os.path.join(VERIF, 'replays', prop)
        os.makedirs(rdir, exist_ok=True)
        for v in fresh[:5]:
            case = v.get('case') or {}
            case_no = case.get('case', 0) if isinstance(case, dict) else 0
            path = os.path.join(rdir, 'seed%d-%s-case%s.json' % (seed, tier, case_no))
            with open(path, 'w') as f:
                json.dump({'property': prop, 'seed': seed, 'tier': tier, 'case_number': case_no,
                           'case': case, 'what': v['what'], 'mech': v.get('mech'), 'detail': v.get('detail'),
                           'replay_cmd': './check %s --replay %s' % (prop, path)}, f, indent=1)
            replay_paths.append(path)

    if fresh_total > 0 and not replay_paths:
        # witnesses were not stored (storage caps): still leave a file describing what fired
        rdir = os.path.join(VERIF, 'replays', prop)
        os.makedirs(rdir, exist_ok=True)
        path = os.path.join(rdir, 'seed%d-%s-summary.json' % (seed, tier))
        with open(path, 'w') as f:
            json.dump({'property': prop, 'seed': seed, 'tier': tier, 'case_number': 0,
                       'mechanisms': {m: n for m, n in mech_counts.items() if m not in listed},
                       'note': 'witness details were not stored; re-run ./check %s --tier %s with VERIF_SEED=%d' % (prop, tier, seed)}, f, indent=1)
        replay_paths.append(path)

    coverage = {
        'evaluations': ev['evaluations'],
        'distinct_nontrivial': len(sigs),
        'rule': meta.get('rule', ''),
        'samples': samples,
        'comparisons': ev['comparisons'],
        'cases_run': cases_run,
        'classes': dict(sorted(classes.items())),
        'expected_errors_observed': dict(sorted(expected_errors.items())),
        'contracts': dict(sorted(contracts.items())),
        'contract_engine': engine,
        'reach': reach,
        'known_findings_matched': dict(known_total and {m: n for m, n in mech_counts.items() if m in listed} or {}),
        'inconclusive_reasons': inconclusive,
        'emsarray_source': src,
        'workers': len(results),
    }
    if meta.get('exhaustive'):
        coverage['exhaustive'] = bool(extra.get('exhaustive_complete', False)) and not inconclusive
    units_total = meta.get('exhaustive_total_' + tier)
    if units_total is not None:
        # a finite sub-space (named in 'rule') was cut into work units; exhaustive only if every unit was completed
        coverage['exhaustive'] = (extra.get('exhaustive_units_done') == units_total) and not inconclusive and not replaying
        coverage['exhaustive_units'] = {'done': extra.get('exhaustive_units_done', 0), 'total': units_total}
    coverage.update({k: v for k, v in extra.items() if k not in ('exhaustive_complete',)})
    evidence = {
        'property_id': prop, 'tier': tier, 'seed': seed, 'level': 'exploration',
        'coverage': coverage,
        'assumptions': meta.get('assumptions', []),
        'wall_s': round(wall, 2),
        'violations': fresh_total,
    }
    if not replaying:
        # runs against a scratch copy of the package (tools/mutant.sh, tools/eval_seeded.sh) must not overwrite the
        # evidence of the real tree
        edir = os.environ.get('VERIF_EVIDENCE_DIR') or os.path.join(VERIF, 'evidence')
        os.makedirs(edir, exist_ok=True)
        with open(os.path.join(edir, prop + '.json'), 'w') as f:
            json.dump(evidence, f, indent=1, sort_keys=False)

    for mech in sorted(m for m in mech_counts if m in listed):
        print('KNOWN-FINDING: property=%s %s [%s, %d observations]' % (
            prop, listed[mech]['what'], mech, mech_counts[mech]))
    if fresh_total > 0:
        for v in fresh[:8]:
            print('  violation: %s | mech=%s | case=%s' % (v['what'], v.get('mech'), json.dumps(v.get('case'))[:400]))
            if replaying:
                print('    detail: %s' % json.dumps(v.get('detail'))[:3000])
        by_mech = {m: n for m, n in mech_counts.items() if m not in listed}
        print('  %d violations by mechanism: %s' % (fresh_total, json.dumps(by_mech)))
        print('VIOLATION property=%s replay=%s' % (prop, replay_paths[0] if replay_paths else 'none'))
        return 1
    if inconclusive:
        print('INCONCLUSIVE property=%s reason=%s' % (prop, ' ; '.join(inconclusive)[:2000]))
        return 2
    print('HELD property=%s tier=%s seed=%d evaluations=%d comparisons=%d distinct=%d wall=%.1fs' % (
        prop, tier, seed, ev['evaluations'], ev['comparisons'], len(sigs), wall))
    return 0


if __name__ == '__main__':
    sys.exit(main())
