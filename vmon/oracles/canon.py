"""Canonical (object-identity free) serialisation of attribute dictionaries and geometry variables.

Used by C16 (and by the fresh-interpreter helper) for two things:

* `fingerprint(ds, names)`  - my own statement of "the geometry variables are the same": names, dtype, shape, raw bytes and
  attributes (values with their types) of the listed variables.  Two datasets with equal fingerprints must get equal cache
  keys; nothing here calls emsarray.
* `canonical_cache_key(ds)` - emsarray's own `make_cache_key` with ONE component swapped out: while it runs,
  `emsarray.conventions._base.hash_attributes` is rebound to a function that feeds the hash a canonical json text of the
  attributes instead of `marshal.dumps(attrs, 4)`.  This is the predicate of the known finding `marshal-object-identity`:
  when two keys that should be equal differ, but the canonical keys of the same two datasets agree, every component except
  the marshal bytes of the attributes is identical, i.e. the disagreement is produced by marshal's FLAG_REF / interning bits.
"""
import contextlib
import hashlib
import json
import marshal

import numpy


def canon_value(value):
    """A json-able description of one attribute value: python/numpy type name + printable value (no object identity)."""
    if isinstance(value, str):
        return ['str', value]
    if isinstance(value, bool):
        return ['bool', repr(value)]
    if isinstance(value, numpy.generic):
        return [value.dtype.name, repr(value.item())]
    if isinstance(value, (int, float)):
        return [type(value).__name__, repr(value)]
    if isinstance(value, numpy.ndarray):
        return ['ndarray', value.dtype.name, list(value.shape), [repr(v) for v in value.ravel().tolist()]]
    if isinstance(value, (list, tuple)):
        return [type(value).__name__, [canon_value(v) for v in value]]
    if isinstance(value, bytes):
        return ['bytes', value.hex()]
    if value is None:
        return ['None']
    return [type(value).__name__, repr(value)]


def canon_attrs(attrs):
    """Canonical text of an attribute dictionary: sorted keys, typed values."""
    return json.dumps(sorted([str(k), canon_value(v)] for k, v in attrs.items()), sort_keys=True)


def canonical_hash_attributes(hash, attributes):
    text = canon_attrs(attributes).encode('utf-8')
    hash.update(numpy.int32(len(attributes)).tobytes())
    hash.update(numpy.int32(len(text)).tobytes())
    hash.update(text)


@contextlib.contextmanager
def canonical_attributes():
    """Temporarily make emsarray's hash_geometry serialise attributes canonically (restored on exit)."""
    from emsarray.conventions import _base
    original = _base.hash_attributes
    _base.hash_attributes = canonical_hash_attributes
    try:
        yield
    finally:
        _base.hash_attributes = original


def canonical_cache_key(dataset):
    from emsarray.operations.cache import make_cache_key
    with canonical_attributes():
        return make_cache_key(dataset)


def marshal_bytes(dataset, names):
    """What emsarray feeds the hash for the attributes of each listed variable, right now."""
    return {str(n): marshal.dumps(dataset[n].attrs, 4).hex() for n in names if n in dataset.variables}


def effective_dtype_name(data_array):
    """The dtype emsarray documents it hashes: the on-disk (encoding) dtype when there is one, else the dtype in memory."""
    return numpy.dtype(data_array.encoding.get('dtype', data_array.values.dtype)).name


def fingerprint(dataset, names):
    """Digest of (name, dtypes, shape, bytes, attributes) of the listed variables, in sorted name order."""
    h = hashlib.sha256()
    for name in sorted(str(n) for n in names):
        da = dataset[name]
        values = da.to_numpy()
        head = json.dumps([name, values.dtype.name, effective_dtype_name(da), list(values.shape), canon_attrs(da.attrs)])
        h.update(numpy.int64(len(head)).tobytes())
        h.update(head.encode('utf-8'))
        raw = numpy.ascontiguousarray(values).tobytes('C')
        h.update(numpy.int64(len(raw)).tobytes())
        h.update(raw)
    return h.hexdigest()
