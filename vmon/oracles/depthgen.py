"""Depth axes, statically floored depth variables and their oracles (shared by C12 and C13).

Everything here is plain numpy over the abstract model: nothing in this file calls emsarray.

A depth *axis* is a dict understood by Model.encode (name, dim, values, positive, bounds, attrs) that also
carries the truth the oracles read:
    phys[k]   physical depth below the surface of stored layer k (larger = deeper; may be <= 0 above the datum)
    rank[k]   0 = physically shallowest stored layer
    down      True  -> stored value = +phys      (positive: down)
              False -> stored value = -phys      (positive: up)
    attr      the `positive` attribute as written in the file ('up', 'down', 'Up', 'DOWN', ... or None = absent)
A depth *variable* is a model Var whose extra dims contain the axis' dimension; its canonical array holds globally
unique ids, NaN below the (static) sea floor of its (axis, grid kind) pair.
"""
import numpy

from ..model.base import Var, add_variables, time_axis
from ..rng import chance, pick

# (name, dim) pairs a convention recognises as depth coordinates *by name*; None = recognised by attributes
BY_NAME = {
    'shoc_standard': [('z_centre', 'k_centre'), ('z_grid', 'k_grid'), ('z_centre_sed', 'k_centre_sed'), ('z_grid_sed', 'k_grid_sed')],
    'shoc_simple': [('zc', 'k'), ('zcsed', 'ksed')],
}
GENERIC_FIRST = [('depth', 'depth'), ('depth', 'k'), ('lev', 'lev'), ('layer_z', 'nlayers'), ('zc', 'kc')]
GENERIC_SECOND = [('depth_sed', 'ksed'), ('sigma', 'sigma'), ('z_w', 's_w'), ('height', 'nheight')]
FOREIGN = [('z_other', 'k_other'), ('zlev', 'zlev')]          # never recognised by name

ATTR_FORMS = {True: ['down', 'down', 'down', 'DOWN', 'Down'], False: ['up', 'up', 'up', 'Up', 'UP']}


def case_variant_down(attr):
    """The one spelling class emsarray's normalisation is known to mis-read (mechanism key
    'positive-attr-case-sensitive'): means "down" under CF's case-insensitive reading, but is not the literal 'down'."""
    return attr is not None and attr != 'down' and attr.lower() == 'down'


def make_axis(rng, name, dim, *, nk=None, down=None, attr='auto', deep_first=None, bounds=None, ident=None,
              style=None, offset=None, dtype='float64', max_levels=6, bounds_p=0.35):
    """One monotonic depth coordinate.

    attr: 'auto' -> a spelling of the true direction (mostly lower case); None -> attribute absent (values then
    avoid 0 and mixed signs so that the documented majority-sign guess is unambiguous); or an explicit string.
    ident: extra identifying attributes for generic CF detection ('axis' | 'standard_name' | None).
    style: 'coord' (xarray coordinate) | 'var' (plain data variable; only when name != dim).
    """
    nk = int(nk if nk is not None else rng.integers(2, max_levels + 1))
    down = chance(rng, 0.5) if down is None else bool(down)
    deep_first = chance(rng, 0.5) if deep_first is None else bool(deep_first)
    if attr == 'auto':
        attr = pick(rng, ATTR_FORMS[down])
    if offset is None:
        if attr is None:
            offset = 'positive'
        else:
            offset = pick(rng, ['positive', 'positive', 'positive', 'zero', 'mixed'])
    if dtype.startswith('int'):
        steps = rng.integers(1, 9, size=nk).astype(float)
        first = {'positive': float(rng.integers(1, 5)), 'zero': 0.0, 'mixed': -float(rng.integers(1, 2 * nk))}[offset]
    else:
        steps = numpy.round(rng.uniform(0.3, 9.0, size=nk), 3)
        first = {'positive': float(numpy.round(rng.uniform(0.25, 4.0), 3)), 'zero': 0.0,
                 'mixed': -float(numpy.round(rng.uniform(0.5, 12.0), 3))}[offset]
    sorted_phys = numpy.round(first + numpy.concatenate([[0.0], numpy.cumsum(steps[1:])]), 3)     # strictly increasing = shallow -> deep
    if dtype == 'float32':
        sorted_phys = sorted_phys.astype('float32').astype('float64')
    rank = numpy.arange(nk)
    if deep_first:
        rank = rank[::-1].copy()
    phys = sorted_phys[rank]
    sign = 1.0 if down else -1.0
    values = (sign * phys).astype(dtype)
    axis = {
        'name': name, 'dim': dim, 'values': values, 'positive': attr, 'bounds': None, 'attrs': {},
        'phys': phys, 'rank': rank, 'down': down, 'deep_first': deep_first, 'attr': attr, 'offset': offset,
        'style': style or 'coord', 'bounds_style': None, 'dtype': dtype, 'nk': nk,
    }
    if ident == 'axis':
        axis['attrs']['axis'] = 'Z'
    elif ident == 'standard_name':
        axis['attrs']['standard_name'] = 'depth'
    elif ident == 'coordinate_type':
        axis['attrs']['coordinate_type'] = 'Z'         # the EMS / SHOC way
    elif ident == 'cartesian_axis':
        axis['attrs']['cartesian_axis'] = 'Z'          # the MOM / ROMS way
    if chance(rng, 0.5):
        axis['attrs']['units'] = 'm'
    if chance(rng, 0.3):
        axis['attrs']['long_name'] = 'layer depth of %s' % name
    if name == dim:
        axis['style'] = 'coord'
    bounds = chance(rng, bounds_p) if bounds is None else bounds
    if bounds:
        width = steps.min() if not dtype.startswith('int') else 1.0
        top = numpy.round(phys - rng.uniform(0.05, 0.45, size=nk) * width, 4)
        bottom = numpy.round(phys + rng.uniform(0.05, 0.45, size=nk) * width, 4)
        cols = [top, bottom] if chance(rng, 0.5) else [bottom, top]
        axis['bounds'] = sign * numpy.stack(cols, axis=-1)
        axis['bounds_phys'] = numpy.stack(cols, axis=-1)
        axis['bounds_style'] = bounds if isinstance(bounds, str) else pick(rng, ['var', 'var', 'coord'])
    return axis


def axis_summary(axis):
    return {'name': axis['name'], 'dim': axis['dim'], 'positive': axis['attr'], 'truly_down': axis['down'],
            'deep_first': axis['deep_first'], 'values': axis['values'], 'style': axis['style'],
            'bounds': axis['bounds_style'], 'offset': axis['offset']}


def choose_axes(rng, conv, naxes, *, recognisable=True, attr_missing=0.12, same_dim=0.0, **axis_kw):
    """Names/dims for 1-2 depth axes of a convention. recognisable=True -> every axis is one the convention's own
    depth_coordinates detection returns (by name for SHOC, by attributes otherwise)."""
    axes = []
    if conv in BY_NAME:
        pool = list(BY_NAME[conv])
        first = pool[0]
        rest = pool[1:] + ([] if recognisable else FOREIGN)
        chosen = [first] + ([pick(rng, rest)] if naxes > 1 else [])
        by_name = True
    else:
        chosen = [pick(rng, GENERIC_FIRST)] + ([pick(rng, GENERIC_SECOND)] if naxes > 1 else [])
        by_name = False
    for i, (name, dim) in enumerate(chosen):
        kw = dict(axis_kw)
        missing = chance(rng, attr_missing)
        ident = None
        if not by_name:
            # a generic coordinate is a depth coordinate through `positive`, axis Z or standard_name depth
            if missing:
                ident = pick(rng, ['axis', 'standard_name', 'coordinate_type', 'cartesian_axis'])
            elif chance(rng, 0.25):
                ident = pick(rng, ['axis', 'standard_name', 'coordinate_type', 'cartesian_axis'])
        elif name in dict(FOREIGN) and chance(rng, 0.3):
            ident = 'axis'
        if missing:
            kw['attr'] = None
        if i == 1 and same_dim and chance(rng, same_dim):
            # a second coordinate on the SAME dimension, oriented consistently with the first one
            first_axis = axes[0]
            second = make_axis(rng, name, first_axis['dim'], nk=first_axis['nk'], deep_first=first_axis['deep_first'],
                               ident=ident, **kw)
            second['shares_dim'] = True
            axes.append(second)
            continue
        axes.append(make_axis(rng, name, dim, ident=ident, **kw))
    for a in axes:
        a['recognised'] = (a['name'], a['dim']) in BY_NAME.get(conv, []) if by_name else \
            (a['attr'] is not None or bool({'axis', 'standard_name', 'coordinate_type', 'cartesian_axis'} & set(a['attrs'])))
        if a['name'] != a['dim'] and a['style'] == 'coord' and chance(rng, 0.25):
            a['style'] = 'var'
    return axes


# ---------------------------------------------------------------------------
# static sea floors
# ---------------------------------------------------------------------------

FLOOR_STYLES = ['random', 'random', 'random', 'stair', 'full', 'dry', 'shallow', 'deep']


def floor_counts(rng, nk, size, style):
    """Number of wet layers (counted from the surface) per column."""
    if style == 'full':
        return numpy.full(size, nk)
    if style == 'dry':
        return numpy.zeros(size, dtype=int)
    if style == 'stair':
        return (numpy.arange(size) + int(rng.integers(nk + 1))) % (nk + 1)
    if style == 'shallow':
        return rng.integers(0, 2, size=size)
    if style == 'deep':
        return rng.integers(max(0, nk - 1), nk + 1, size=size)
    return rng.integers(0, nk + 1, size=size)


def wet_mask(rng, axis, size, style=None, gaps=False):
    """bool [stored layer k, column n]: True = holds data. Static in time, shared by every variable of the group."""
    nk = axis['nk']
    style = style or pick(rng, FLOOR_STYLES)
    counts = floor_counts(rng, nk, size, style)
    ranked = numpy.arange(nk)[:, None] < counts[None, :]          # by physical rank, 0 = surface
    if gaps:
        ranked = ranked & ~(rng.random(ranked.shape) < 0.25)       # missing layers above the floor (ice, gaps)
    return ranked[axis['rank'], :], counts, style


def add_depth_variable(model, rng, name, kind, axis, mask, others, *, dtype='float64', depth_pos=None):
    """A float variable on `kind` with the depth dimension of `axis`, optional other extra dims, in permuted order.

    mask[k, n] (None for a variable on no grid: then nothing is dry). depth_pos: wanted position of the depth
    dimension in the final dimension order (modulo the number of dimensions)."""
    kdims = list(model.kinds[kind].dims) if kind is not None else []
    size = model.kinds[kind].size if kind is not None else None
    extras = list(others) + [(axis['dim'], axis['nk'])]
    extras = [extras[i] for i in rng.permutation(len(extras))]
    dims = [d for d, _ in extras] + kdims
    dims = [dims[i] for i in rng.permutation(len(dims))]
    if depth_pos is not None:
        dims.remove(axis['dim'])
        dims.insert(depth_pos % (len(dims) + 1), axis['dim'])
    sizes = dict(extras)
    extra_in_order = [(d, sizes[d]) for d in dims if d in sizes]
    shape = tuple(s for _, s in extra_in_order) + ((size,) if kind is not None else ())
    canon = model.fresh_ids(shape)
    if dtype == 'float32' and canon.max() >= 2 ** 24:
        dtype = 'float64'
    if mask is not None:
        p = [d for d, _ in extra_in_order].index(axis['dim'])
        shape_b = [1] * len(shape)
        shape_b[p] = axis['nk']
        shape_b[-1] = size
        canon = numpy.where(mask.reshape(shape_b), canon, numpy.nan)
    var = Var(name, kind, extra_in_order, dims, canon, dtype, None, attrs={'long_name': 'depth variable %s' % name})
    model.variables[name] = var
    return var


def dress(model, rng, conv, *, naxes=None, time=None, band=None, recognisable=True, same_dim=0.0, gaps=0.15,
          plain=(0, 1), profiles=0.3, kinds=None, per_group=(1, 2), attr_missing=0.12, **axis_kw):
    """Give `model` a time axis, depth axes, statically floored depth variables on several grid kinds, variables
    without depth, and (sometimes) depth variables on no grid.  Records the truth in model.depth_info."""
    naxes = int(naxes if naxes is not None else rng.integers(1, 3))
    time = chance(rng, 0.75) if time is None else time
    band = chance(rng, 0.4) if band is None else band
    naming = getattr(model, 'extras_naming', {'time': ('time', 'time')})
    others = []
    if time:
        tname, tdim = naming['time']
        model.time = time_axis(rng, name=tname, dim=tdim)
        others.append((tdim, model.time['size']))
    band_coord = None
    if band:
        nb = int(rng.integers(2, 4))
        others.append(('band', nb))
        if chance(rng, 0.5):
            band_coord = numpy.arange(nb) * 10.0 + 5.0
    axes = choose_axes(rng, conv, naxes, recognisable=recognisable, same_dim=same_dim, attr_missing=attr_missing, **axis_kw)
    model.depths = axes
    info = {'axes': axes, 'var_axis': {}, 'groups': [], 'band_coord': band_coord, 'others': others, 'profiles': []}
    kind_names = list(kinds if kinds is not None else model.kinds)
    count = 0
    pos = int(rng.integers(0, 6))
    floors = {}
    for ai, axis in enumerate(axes):
        for kind in kind_names:
            if kind != model.default_kind and not chance(rng, 0.6):
                continue
            size = model.kinds[kind].size
            # one static floor per (depth DIMENSION, grid kind): a second coordinate on the same dimension shares it
            if (axis['dim'], kind) not in floors:
                floors[(axis['dim'], kind)] = wet_mask(rng, axis, size, gaps=chance(rng, gaps))
            mask, counts, style = floors[(axis['dim'], kind)]
            names = []
            for _ in range(int(rng.integers(per_group[0], per_group[1] + 1))):
                sub = [o for o in others if chance(rng, 0.6)]
                name = 'd%d_%s_%s' % (count, kind, axis['name'])
                count += 1
                add_depth_variable(model, rng, name, kind, axis, mask, sub,
                                   dtype=pick(rng, ['float64', 'float64', 'float32']), depth_pos=pos)
                pos += 1
                info['var_axis'][name] = ai
                names.append(name)
            info['groups'].append({'axis': ai, 'kind': kind, 'style': style, 'counts': counts, 'mask': mask, 'names': names})
        if chance(rng, profiles):
            # depth variable on no grid (a profile): the property is silent about it
            sub = [o for o in others if chance(rng, 0.5)]
            name = 'd%d_profile_%s' % (count, axis['name'])
            count += 1
            add_depth_variable(model, rng, name, None, axis, None, sub)
            info['var_axis'][name] = ai
            info['profiles'].append(name)
    add_variables(model, rng, per_kind=plain, extras=others, nongrid=1 if others else 0, name_prefix='p')
    model.depth_info = info
    return info


def encode(model):
    """model.encode() plus the details Model.encode does not know: depth coordinate held as a plain variable,
    bounds held as a coordinate, a coordinate variable for the band dimension."""
    ds = model.encode()
    info = model.depth_info
    for axis in info['axes']:
        if axis['style'] == 'var' and axis['name'] != axis['dim']:
            ds = ds.reset_coords([axis['name']])
        if axis['bounds'] is not None and axis['bounds_style'] == 'coord':
            ds = ds.set_coords([axis['name'] + '_bounds'])
        if axis.get('encoding'):
            ds[axis['name']].encoding.update(axis['encoding'])
    if info.get('band_coord') is not None and 'band' in ds.dims:
        ds = ds.assign_coords(band=('band', info['band_coord'], {'long_name': 'unrelated band'}))
    return ds


# ---------------------------------------------------------------------------
# C12 oracle
# ---------------------------------------------------------------------------

def floor_oracle(model, name):
    """(dims, values) of variable `name` reduced to the physically deepest layer holding data, from the model only."""
    var = model.variables[name]
    axis = model.depth_info['axes'][model.depth_info['var_axis'][name]]
    p = var.extra_dims.index(axis['dim'])
    phys = [float(v) for v in axis['phys']]
    order = sorted(range(axis['nk']), key=lambda k: phys[k])        # shallow -> deep
    out = numpy.full(var.canon.shape[:p] + var.canon.shape[p + 1:], numpy.nan)
    for k in order:                                                    # deeper data overwrite shallower data
        layer = numpy.take(var.canon, k, axis=p)
        out = numpy.where(numpy.isnan(layer), out, layer)
    extra = [e for e in var.extra if e[0] != axis['dim']]
    dims = tuple(d for d in var.dims if d != axis['dim'])
    reduced = Var(name, var.kind, extra, dims, out, var.dtype, None)
    return dims, reduced.data(model)


# ---------------------------------------------------------------------------
# deep snapshots (purity / "unchanged" comparisons)
# ---------------------------------------------------------------------------

def _copy_meta(d):
    out = {}
    for k, v in d.items():
        out[k] = v.copy() if isinstance(v, numpy.ndarray) else (list(v) if isinstance(v, list) else v)
    return out


def snapshot(ds):
    """Deep, emsarray-independent copy of everything observable about a dataset."""
    snap = {'attrs': _copy_meta(ds.attrs), 'order': list(ds.variables), 'coords': set(ds.coords),
            'sizes': dict(ds.sizes), 'vars': {}}
    for name in ds.variables:
        v = ds.variables[name]
        snap['vars'][name] = {'dims': tuple(v.dims), 'dtype': str(v.dtype), 'values': numpy.array(v.values, copy=True),
                              'attrs': _copy_meta(v.attrs), 'encoding': _copy_meta(v.encoding)}
    return snap


def meta_equal(a, b):
    if set(a) != set(b):
        return False
    for k in a:
        x, y = a[k], b[k]
        if isinstance(x, numpy.ndarray) or isinstance(y, numpy.ndarray):
            if not (numpy.asarray(x).shape == numpy.asarray(y).shape and bool(numpy.all(numpy.asarray(x) == numpy.asarray(y)))):
                return False
        elif type(x) is not type(y) and not (isinstance(x, (int, float, numpy.number)) and isinstance(y, (int, float, numpy.number))):
            return False
        elif x != y:
            return False
    return True


def values_identical(a, b):
    a = numpy.asarray(a)
    b = numpy.asarray(b)
    if a.shape != b.shape or a.dtype != b.dtype:
        return False
    if a.dtype.kind in 'fc':
        return bool(numpy.array_equal(a, b, equal_nan=True))
    return bool(numpy.array_equal(a, b))


def var_diff(snap_var, variable, *, encoding=False):
    """None when xarray variable `variable` is identical to the snapshot entry, else a short reason."""
    if tuple(variable.dims) != snap_var['dims']:
        return 'dims %r != %r' % (tuple(variable.dims), snap_var['dims'])
    if str(variable.dtype) != snap_var['dtype']:
        return 'dtype %s != %s' % (variable.dtype, snap_var['dtype'])
    if not values_identical(variable.values, snap_var['values']):
        return 'values differ'
    if not meta_equal(dict(variable.attrs), snap_var['attrs']):
        return 'attrs %r != %r' % (dict(variable.attrs), snap_var['attrs'])
    if encoding and not meta_equal(dict(variable.encoding), snap_var['encoding']):
        return 'encoding %r != %r' % (dict(variable.encoding), snap_var['encoding'])
    return None


def dataset_diff(snap, ds, *, encoding=False, order=False, skip=()):
    """List of differences between a snapshot and a dataset (empty = identical)."""
    diffs = []
    if set(snap['vars']) != set(ds.variables):
        diffs.append('variables %r != %r' % (sorted(map(str, ds.variables)), sorted(map(str, snap['vars']))))
    if order and snap['order'] != list(ds.variables):
        diffs.append('variable order changed')
    if snap['coords'] != set(ds.coords):
        diffs.append('coordinate set %r != %r' % (sorted(map(str, ds.coords)), sorted(map(str, snap['coords']))))
    if not meta_equal(dict(ds.attrs), snap['attrs']):
        diffs.append('global attrs differ')
    if dict(ds.sizes) != snap['sizes']:
        diffs.append('sizes %r != %r' % (dict(ds.sizes), snap['sizes']))
    for name, sv in snap['vars'].items():
        if name in skip or name not in ds.variables:
            continue
        why = var_diff(sv, ds.variables[name], encoding=encoding)
        if why:
            diffs.append('%s: %s' % (name, why))
    return diffs
