"""Helpers for C20: running the emsarray command line, composing argument strings, comparing output files.

Nothing here calls emsarray except `run_inprocess` / `run_subprocess`, which only start the command line.
"""
import contextlib
import io
import json
import logging
import os
import subprocess
import sys
import traceback

import numpy

# ---------------------------------------------------------------------------------------------------------
# running the command line
# ---------------------------------------------------------------------------------------------------------

LOGGERS_TO_RESET = ['emsarray', 'emsarray.cli.errors', 'py.warnings', '__main__']


class CliResult:
    def __init__(self, code, stderr, stdout, mode, uncaught=False):
        self.code = code
        self.stderr = stderr
        self.stdout = stdout
        self.mode = mode
        self.uncaught = uncaught

    @property
    def failed(self):
        return self.code != 0

    def brief(self):
        return {'mode': self.mode, 'exit': self.code, 'stderr tail': self.stderr[-400:], 'uncaught': self.uncaught}


def run_inprocess(argv):
    """emsarray.cli.main(argv) with stderr / stdout captured.

    main() installs logging.StreamHandler objects on every call (logging.config.dictConfig); they bind sys.stderr at
    construction, so the redirection must be in place before main() is entered.  Afterwards the handlers are removed
    again and warnings capture is switched off, so that later library calls do not write into a dead buffer.
    """
    import emsarray.cli
    err, out = io.StringIO(), io.StringIO()
    code, uncaught = 0, False
    try:
        with contextlib.redirect_stderr(err), contextlib.redirect_stdout(out):
            try:
                emsarray.cli.main([str(a) for a in argv])
            except SystemExit as exc:
                if exc.code is None:
                    code = 0
                elif isinstance(exc.code, int):
                    code = exc.code
                else:
                    print(exc.code, file=sys.stderr)
                    code = 1
            except Exception:  # noqa: BLE001  (a real process would print the traceback and exit with status 1)
                traceback.print_exc()
                code, uncaught = 1, True
    finally:
        logging.captureWarnings(False)
        for name in LOGGERS_TO_RESET:
            logger = logging.getLogger(name)
            for handler in list(logger.handlers):
                logger.removeHandler(handler)
    return CliResult(code, err.getvalue(), out.getvalue(), 'in-process', uncaught)


def run_subprocess(argv, cwd, timeout=180):
    """`python -m emsarray ...` in a fresh interpreter; PYTHONPATH (and with it a mutated source tree) is inherited.

    The child uses dask's synchronous scheduler like every harness worker does (DASK_SCHEDULER): with the threaded
    default, netCDF4 / HDF5 in this environment sporadically fail inside open_mfdataset ("NetCDF: HDF error", or a
    crash) - thread-safety of the trusted base, not part of the property.
    """
    env = dict(os.environ)
    env['DASK_SCHEDULER'] = 'synchronous'
    proc = subprocess.run([sys.executable, '-m', 'emsarray'] + [str(a) for a in argv], cwd=cwd, capture_output=True,
                          text=True, timeout=timeout, env=env)
    return CliResult(proc.returncode, proc.stderr, proc.stdout, 'subprocess')


# ---------------------------------------------------------------------------------------------------------
# bounds grammar: an independent recogniser and composers
# ---------------------------------------------------------------------------------------------------------

BLANKS = ' \t'
DIGITS = '0123456789'


def _digit_groups(text):
    """digit+ ('_' digit+)*  ->  digits without underscores, or None."""
    if not text:
        return None
    out = []
    for group in text.split('_'):
        if not group or any(ch not in DIGITS for ch in group):
            return None
        out.append(group)
    return ''.join(out)


def parse_number(token):
    """'-'? (D | D '.' | '.' D | D '.' D) with D = digit groups joined by single underscores -> float or None."""
    body = token[1:] if token.startswith('-') else token
    sign = '-' if token.startswith('-') else ''
    if body.count('.') > 1 or not body:
        return None
    whole, dot, frac = body.partition('.')
    if not whole and not frac:
        return None
    w = _digit_groups(whole) if whole else ''
    f = _digit_groups(frac) if frac else ''
    if w is None or f is None:
        return None
    return float('%s%s.%s' % (sign, w or '0', f or '0'))


def parse_bounds(text):
    """Exactly four comma separated numbers (blanks allowed around the commas) -> (a, b, c, d) or None."""
    fields = text.split(',')
    if len(fields) != 4:
        return None
    out = []
    for field in fields:
        number = parse_number(field.strip(BLANKS))
        if number is None:
            return None
        out.append(number)
    return tuple(out)


def has_valid_bounds_prefix(text):
    """Is some proper prefix of the text a complete four-number bounds string? (mechanism predicate of the
    candidate defect 'bounds-regex-unanchored': a pattern anchored only at the start accepts such a text)."""
    return any(parse_bounds(text[:k]) is not None for k in range(1, len(text)))


def compose_number(rng, magnitude=None):
    """-> (text, value): a number written in one of the accepted forms; the value is computed from the parts."""
    form = ['int', 'int.', '.frac', 'int.frac', 'int.frac', 'int'][int(rng.integers(6))]
    sign = '-' if rng.random() < 0.4 else ''

    def digits(n_max, allow_underscore=True):
        n = int(rng.integers(1, n_max + 1))
        ds = ''.join(DIGITS[int(d)] for d in rng.integers(0, 10, size=n))
        if allow_underscore and n >= 2 and rng.random() < 0.3:
            # underscores between digits, e.g. 1_000 or 1_2_3
            pos = sorted(set(int(p) for p in rng.integers(1, n, size=int(rng.integers(1, 3)))))
            parts, last = [], 0
            for p in pos:
                parts.append(ds[last:p])
                last = p
            parts.append(ds[last:])
            return '_'.join(parts), ds
        return ds, ds

    whole_text = whole = frac_text = frac = ''
    if form != '.frac':
        whole_text, whole = digits(7 if magnitude is None else magnitude)
    if form in ('.frac', 'int.frac'):
        frac_text, frac = digits(6)
    text = sign + whole_text + ('.' if form != 'int' else '') + frac_text
    value = float('%s%s.%s' % (sign, whole or '0', frac or '0'))
    return text, value


def number_text(value, rng=None):
    """A given float written within the grammar (plain decimals, never an exponent); value must round-trip."""
    text = repr(float(value))
    if 'e' in text or 'E' in text or 'n' in text:
        text = '%.10f' % value
    if rng is not None and text.endswith('.0') and rng.random() < 0.5:
        text = text[:-2] if rng.random() < 0.5 else text[:-1]
    return text


def join_bounds(rng, texts):
    seps = []
    for _ in range(3):
        left = ['', '', ' ', '  ', '\t'][int(rng.integers(5))]
        right = ['', '', ' ', '  ', '\t'][int(rng.integers(5))]
        seps.append(left + ',' + right)
    return texts[0] + seps[0] + texts[1] + seps[1] + texts[2] + seps[2] + texts[3]


def compose_bounds(rng):
    """-> (text, (a, b, c, d))."""
    parts = [compose_number(rng) for _ in range(4)]
    return join_bounds(rng, [p[0] for p in parts]), tuple(p[1] for p in parts)


TRAILING = [',5', ',', ',5.5', 'e5', 'E-3', 'e+2', ' garbage', 'x', ';5', ' 5', 'j', ')', '%', ' ,', ',nan', '_', '__0', '..', '.5.', ' 1,2,3,4',
            '\n5', 'f', ',-', ',,', ' deg']
BAD_FIELDS = ['', ' ', '+1', '+1.5', 'nan', 'inf', '-inf', 'NaN', '1e5', '1E5', '2.5e-3', '--1', '-', '.', '-.', '_1', '1_', '1__0', '1._5', '1_.5',
              '1.2.3', '0x10', '1 000', '- 1', '1 5', 'one', '1d', '1/2', '(1)', '1 .5']


def compose_nonbounds(rng):
    """-> (text, class): a string that is NOT four comma separated numbers."""
    kind = ['fields-3', 'fields-5', 'trailing-text', 'trailing-text', 'bad-field', 'bad-field', 'bad-field', 'separator', 'fields-1-2',
            'exponent-last'][int(rng.integers(10))]
    nums = [compose_number(rng)[0] for _ in range(6)]
    if kind == 'fields-3':
        text = '%s,%s,%s' % tuple(nums[:3])
    elif kind == 'fields-5':
        text = join_bounds(rng, nums[:4]) + ',' + nums[4] + (',' + nums[5] if rng.random() < 0.3 else '')
    elif kind == 'fields-1-2':
        text = nums[0] if rng.random() < 0.5 else '%s,%s' % tuple(nums[:2])
    elif kind == 'trailing-text':
        text = join_bounds(rng, nums[:4]) + TRAILING[int(rng.integers(len(TRAILING)))]
    elif kind == 'exponent-last':
        text = join_bounds(rng, nums[:4]) + ['e5', 'E5', 'e-2', 'e+1'][int(rng.integers(4))]
    elif kind == 'bad-field':
        pos = int(rng.integers(4))
        fields = nums[:4]
        fields[pos] = BAD_FIELDS[int(rng.integers(len(BAD_FIELDS)))]
        text = ','.join(fields)
        kind = 'bad-field-%d' % pos
    else:
        sep = [';', ' ', '  ', ':', '|', ', ,', ' , , ', '\t', '/'][int(rng.integers(9))]
        text = sep.join(nums[:4])
    return text, kind


# ---------------------------------------------------------------------------------------------------------
# GeoJSON objects
# ---------------------------------------------------------------------------------------------------------

def compose_geojson(rng):
    """-> (GeoJSON geometry mapping, class) built from generated numbers."""
    def pt():
        return [round(float(rng.uniform(-180, 180)), int(rng.integers(0, 7))), round(float(rng.uniform(-80, 80)), int(rng.integers(0, 7)))]

    def ring(cx, cy, r, n):
        angles = numpy.sort(rng.uniform(0, 2 * numpy.pi, size=n))
        pts = [[cx + r * float(numpy.cos(a)), cy + r * float(numpy.sin(a))] for a in angles]
        return pts + [pts[0]]

    kind = ['Point', 'LineString', 'Polygon', 'Polygon', 'PolygonWithHole', 'MultiPolygon', 'MultiPoint', 'GeometryCollection'][int(rng.integers(8))]
    if kind == 'Point':
        obj = {'type': 'Point', 'coordinates': pt()}
    elif kind == 'MultiPoint':
        obj = {'type': 'MultiPoint', 'coordinates': [pt() for _ in range(int(rng.integers(1, 4)))]}
    elif kind == 'LineString':
        obj = {'type': 'LineString', 'coordinates': [pt() for _ in range(int(rng.integers(2, 6)))]}
    elif kind == 'Polygon':
        c = pt()
        obj = {'type': 'Polygon', 'coordinates': [ring(c[0], c[1], float(rng.uniform(0.1, 5)), int(rng.integers(3, 8)))]}
    elif kind == 'PolygonWithHole':
        c = pt()
        r = float(rng.uniform(1, 5))
        obj = {'type': 'Polygon', 'coordinates': [ring(c[0], c[1], r, 6), ring(c[0], c[1], r / 4, 4)]}
    elif kind == 'MultiPolygon':
        a, b = pt(), pt()
        obj = {'type': 'MultiPolygon', 'coordinates': [[ring(a[0], a[1], 0.5, 4)], [ring(b[0], b[1], 0.25, 5)]]}
    else:
        c = pt()
        obj = {'type': 'GeometryCollection', 'geometries': [{'type': 'Point', 'coordinates': pt()},
                                                             {'type': 'Polygon', 'coordinates': [ring(c[0], c[1], 1.0, 4)]}]}
    return obj, kind


def dump_geojson(rng, obj):
    style = int(rng.integers(4))
    if style == 0:
        text = json.dumps(obj)
    elif style == 1:
        text = json.dumps(obj, separators=(',', ':'))
    elif style == 2:
        text = json.dumps(obj, indent=2)
    else:
        text = json.dumps(obj, sort_keys=True)
    # insignificant white space around the JSON value (RFC 8259 section 2): what "$(cat file)", a here-document or
    # indented text hands to the command line
    wrap = int(rng.integers(6))
    if wrap == 0:
        text = ' ' + text
    elif wrap == 1:
        text = '\n' + text + '\n'
    elif wrap == 2:
        text = text + '  \n'
    return text


# ---------------------------------------------------------------------------------------------------------
# file comparison
# ---------------------------------------------------------------------------------------------------------

def _attr_value(value):
    if isinstance(value, numpy.ndarray):
        return ('array', str(value.dtype), value.tolist())
    if isinstance(value, numpy.generic):
        return ('scalar', str(value.dtype), value.item())
    return ('py', type(value).__name__, value)


def _same(a, b):
    """Structural equality with NaN == NaN."""
    if isinstance(a, float) and isinstance(b, float):
        return a == b or (a != a and b != b)
    if isinstance(a, (list, tuple)) and isinstance(b, (list, tuple)):
        return len(a) == len(b) and type(a) is type(b) and all(_same(x, y) for x, y in zip(a, b))
    return type(a) is type(b) and a == b


def nc_content(path):
    """Everything stored in a netCDF file, undecoded: dimensions, global attributes, variables in file order."""
    import netCDF4
    with netCDF4.Dataset(path, 'r') as nc:
        nc.set_auto_maskandscale(False)
        content = {
            'format': nc.data_model,
            'dimensions': [(name, len(dim), dim.isunlimited()) for name, dim in nc.dimensions.items()],
            'attributes': [(name, _attr_value(nc.getncattr(name))) for name in nc.ncattrs()],
            'groups': sorted(nc.groups),
            'variables': [],
        }
        for name, var in nc.variables.items():
            values = numpy.asarray(var[...])
            content['variables'].append({
                'name': name, 'dtype': str(var.dtype), 'dimensions': tuple(var.dimensions),
                'attributes': [(a, _attr_value(var.getncattr(a))) for a in var.ncattrs()],
                'values': values,
            })
    return content


def _values_equal(a, b):
    if a.shape != b.shape or a.dtype != b.dtype:
        return False
    if a.dtype.kind in 'fc':
        return bool(numpy.array_equal(a, b, equal_nan=True))
    return bool(numpy.array_equal(a, b))


def nc_diff(a, b):
    """First difference between two nc_content() results, or None when the files hold identical content."""
    for key in ('format', 'dimensions', 'groups'):
        if a[key] != b[key]:
            return {'what': key, 'cli': a[key], 'library': b[key]}
    if not _same(a['attributes'], b['attributes']):
        return {'what': 'global attributes', 'cli': a['attributes'], 'library': b['attributes']}
    names_a = [v['name'] for v in a['variables']]
    names_b = [v['name'] for v in b['variables']]
    if names_a != names_b:
        return {'what': 'variable names / order', 'cli': names_a, 'library': names_b}
    for va, vb in zip(a['variables'], b['variables']):
        for key in ('dtype', 'dimensions'):
            if va[key] != vb[key]:
                return {'what': 'variable %s: %s' % (va['name'], key), 'cli': va[key], 'library': vb[key]}
        if not _same(va['attributes'], vb['attributes']):
            return {'what': 'variable %s: attributes' % va['name'], 'cli': va['attributes'], 'library': vb['attributes']}
        if not _values_equal(va['values'], vb['values']):
            return {'what': 'variable %s: raw values' % va['name'], 'cli': va['values'], 'library': vb['values']}
    return None


def sibling_files(path):
    """Files in the directory of `path` that share its stem up to the last suffix (shapefile side-cars included)."""
    directory, name = os.path.split(path)
    stem = name.rsplit('.', 1)[0] if '.' in name else name
    out = {}
    for entry in sorted(os.listdir(directory)):
        if entry == name or (entry.rsplit('.', 1)[0] == stem and '.' in entry):
            out[entry[len(stem):]] = os.path.join(directory, entry)
    return out


def files_diff(path_a, path_b):
    """Compare the file sets written for two output paths byte for byte (the dBase header date bytes excepted)."""
    fa, fb = sibling_files(path_a), sibling_files(path_b)
    if sorted(fa) != sorted(fb):
        return {'what': 'set of files written', 'cli': sorted(fa), 'library': sorted(fb)}
    for suffix in fa:
        with open(fa[suffix], 'rb') as f:
            da = f.read()
        with open(fb[suffix], 'rb') as f:
            db = f.read()
        if suffix == '.dbf' and len(da) == len(db) and len(da) > 4:
            da, db = da[:1] + da[4:], db[:1] + db[4:]          # bytes 1-3: date of last update
        if da != db:
            return {'what': 'bytes of the %s file' % (suffix or 'output'), 'cli size': len(da), 'library size': len(db),
                    'cli head': repr(da[:120]), 'library head': repr(db[:120])}
    return None
