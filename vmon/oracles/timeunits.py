"""Composed CF time-units strings with a known reference instant (C17).

A units string is *composed* from (period, epoch = calendar date + time of day, UTC offset in minutes, writing style),
so the reference instant it denotes is known from plain integer arithmetic (contracts.days_from_civil) - nothing is
parsed to obtain the truth.  Every style used here was checked by hand to be read by cftime 1.6.5
(`cftime.num2pydate(0, units, 'proleptic_gregorian')`) and by xarray 2026.7 (`decode_cf_datetime`) as exactly the composed
instant for all 105 offsets; the monitor re-checks cftime's reading of every input at run time and asserts nothing about
an input the trusted base reads differently.  ('+H:MM' with a one-digit hour and a bare '+H' are NOT used as inputs:
cftime silently ignores such an offset, so the input itself would be ambiguous.)
"""
from ..contracts import days_from_civil

PERIODS = ['seconds', 'minutes', 'hours', 'days', 'milliseconds']
PERIOD_NS = {'milliseconds': 10 ** 6, 'seconds': 10 ** 9, 'minutes': 60 * 10 ** 9, 'hours': 3600 * 10 ** 9,
             'days': 86400 * 10 ** 9}

# -12:00 ... +14:00 in 15 minute steps: negative, one-digit-hour, fractional-hour offsets all included
OFFSETS = list(range(-12 * 60, 14 * 60 + 1, 15))
assert len(OFFSETS) == 105

# (label, (year, month, day, hour, minute, second))
EPOCHS = [
    ('unix-epoch', (1970, 1, 1, 0, 0, 0)),
    ('ems-1990', (1990, 1, 1, 0, 0, 0)),
    ('leap-day-late', (2000, 2, 29, 23, 30, 0)),          # negative offsets push the UTC instant into March
    ('day-after-leap-day', (2024, 3, 1, 0, 0, 0)),        # positive offsets pull the UTC instant back to Feb 29
    ('new-years-eve', (1999, 12, 31, 23, 59, 59)),        # negative offsets cross the year (and century) boundary
    ('new-years-day', (2021, 1, 1, 0, 10, 30)),           # positive offsets cross the year boundary backwards
    ('before-1900', (1899, 12, 31, 23, 45, 0)),
    ('mjd-epoch', (1858, 11, 17, 0, 0, 0)),
    ('year-below-1000', (850, 6, 15, 12, 0, 0)),          # four-digit year needs zero padding
]
FILE_EPOCHS = [e for e in EPOCHS if e[1][0] >= 1700]      # representable as datetime64[ns]

# styles valid for every offset
STYLES = ['T-sec-colon', 'sp-sec-colon', 'sp-nosec-colon', 'T-nosec-colon', 'sp-sec-nocolon', 'sp-sec-colon-nospace', 'short']
# styles that can only be written for UTC
UTC_STYLES = ['Z', 'UTC-word', 'no-offset', 'shortest']


def offset_text(off, form):
    sign = '+' if off >= 0 else '-'
    hh, mm = divmod(abs(off), 60)
    if form == 'colon':
        return '%s%02d:%02d' % (sign, hh, mm)
    if form == 'nocolon':
        return '%s%02d%02d' % (sign, hh, mm)
    if form == 'hh':
        assert mm == 0
        return '%s%02d' % (sign, hh)
    raise ValueError(form)


def offset_label(off):
    return offset_text(off, 'colon')


def compose(period, epoch, off, style):
    """-> (units string, utc seconds since 1970 of the reference instant, seconds_written)."""
    y, mo, d, h, mi, s = epoch
    date = '%04d-%02d-%02d' % (y, mo, d)
    with_seconds = True
    if style == 'T-sec-colon':
        text = '%sT%02d:%02d:%02d%s' % (date, h, mi, s, offset_text(off, 'colon'))
    elif style == 'sp-sec-colon':
        text = '%s %02d:%02d:%02d %s' % (date, h, mi, s, offset_text(off, 'colon'))
    elif style == 'sp-sec-colon-nospace':
        text = '%s %02d:%02d:%02d%s' % (date, h, mi, s, offset_text(off, 'colon'))
    elif style == 'sp-nosec-colon':
        with_seconds = False
        text = '%s %02d:%02d %s' % (date, h, mi, offset_text(off, 'colon'))
    elif style == 'T-nosec-colon':
        with_seconds = False
        text = '%sT%02d:%02d%s' % (date, h, mi, offset_text(off, 'colon'))
    elif style == 'sp-sec-nocolon':
        text = '%s %02d:%02d:%02d %s' % (date, h, mi, s, offset_text(off, 'nocolon'))
    elif style == 'short':
        if off % 60 == 0:
            text = '%s %02d:%02d:%02d %s' % (date, h, mi, s, offset_text(off, 'hh'))       # '+HH', whole hours only
        else:
            text = '%sT%02d:%02d:%02d%s' % (date, h, mi, s, offset_text(off, 'nocolon'))   # 'T...+HHMM'
    elif style in UTC_STYLES:
        assert off == 0
        if style == 'Z':
            text = '%sT%02d:%02d:%02dZ' % (date, h, mi, s)
        elif style == 'UTC-word':
            text = '%s %02d:%02d:%02d UTC' % (date, h, mi, s)
        elif style == 'no-offset':
            text = '%s %02d:%02d:%02d' % (date, h, mi, s)
        else:
            with_seconds = False
            text = date if (h, mi) == (0, 0) else '%s %02d:%02d' % (date, h, mi)
    else:
        raise ValueError(style)
    if not with_seconds:
        s = 0       # the seconds field is not written: the composed time of day has zero seconds
    secs = days_from_civil(y, mo, d) * 86400 + h * 3600 + mi * 60 + s - off * 60
    return '%s since %s' % (period, text), secs


def styles_for(off):
    return STYLES + (UTC_STYLES if off == 0 else [])


def offset_style_pairs():
    """All (offset, style) pairs: 105 x 7 + 4 UTC-only."""
    return [(off, st) for off in OFFSETS for st in styles_for(off)]


def offset_format_defect_applies(off):
    """Mechanism predicate of the candidate defect 'time-offset-format' (DESIGN section 8 row 1).

    The offset is rendered as f'{h:+d}:{m:02d}' with (h, m) = divmod(minutes, 60).  That text is not a
    two-digit-hour offset (so cftime 1.6.5 does not read it) whenever floor(minutes/60) has one digit and the offset
    is not zero, and it names a different offset whenever the offset is negative with a minute part.
    """
    if off == 0:
        return False
    h, m = divmod(off, 60)          # Python floor division, as in the implementation
    return abs(h) < 10 or (off < 0 and m != 0)
