"""Free-standing faces on an integer lattice (second mesh family of C14) and exact triangle arithmetic.

Every face is generated in small integer coordinates, so collinearity, convexity and areas are decided exactly with
integer arithmetic; the map to the float coordinates stored in the dataset (integer linear map, power-of-two scale,
integer offset) is exactly representable in float64, so the stored polygons have exactly the generated shape.
Faces never share nodes: each face owns its nodes and sits in its own tile of the plane.

Nothing in here calls emsarray.
"""
import math
from fractions import Fraction

import numpy
from shapely.geometry import Polygon

from ..model.ugrid import Mesh
from ..rng import chance, pick

TILE = 64

SHAPE_CLASSES = ['convex', 'convex', 'convex-collinear', 'rectilinear', 'rectilinear', 'rectilinear-collinear',
                 'star', 'arrow', 'star-shaped', 'random-simple', 'random-simple']


# ---------------------------------------------------------------------------
# exact integer helpers
# ---------------------------------------------------------------------------

def cross(o, a, b):
    return (a[0] - o[0]) * (b[1] - o[1]) - (a[1] - o[1]) * (b[0] - o[0])


def area2(ring):
    """Twice the signed area (exact for int / Fraction coordinates)."""
    s = 0
    n = len(ring)
    for k in range(n):
        x1, y1 = ring[k]
        x2, y2 = ring[(k + 1) % n]
        s += x1 * y2 - x2 * y1
    return s


def turns(ring):
    """cross products at every vertex (prev, this, next)."""
    n = len(ring)
    return [cross(ring[k - 1], ring[k], ring[(k + 1) % n]) for k in range(n)]


def classify(ring):
    """(is_concave, has_collinear_vertex, has_any_collinear_triple) by exact arithmetic."""
    a = area2(ring)
    sign = 1 if a > 0 else -1
    t = turns(ring)
    concave = any(c * sign < 0 for c in t)
    flat = any(c == 0 for c in t)
    n = len(ring)
    triple = flat
    if not triple:
        for i in range(n):
            for j in range(i + 1, n):
                for k in range(j + 1, n):
                    if cross(ring[i], ring[j], ring[k]) == 0:
                        triple = True
                        break
                if triple:
                    break
            if triple:
                break
    return concave, flat, triple


def strict_hull(points):
    """Andrew's monotone chain, collinear points dropped; CCW."""
    pts = sorted(set(points))
    if len(pts) < 3:
        return pts
    lower, upper = [], []
    for p in pts:
        while len(lower) >= 2 and cross(lower[-2], lower[-1], p) <= 0:
            lower.pop()
        lower.append(p)
    for p in reversed(pts):
        while len(upper) >= 2 and cross(upper[-2], upper[-1], p) <= 0:
            upper.pop()
        upper.append(p)
    return lower[:-1] + upper[:-1]


def _segments_cross(p1, p2, p3, p4):
    """Do closed segments p1p2 and p3p4 share a point? (exact)"""
    d1, d2 = cross(p3, p4, p1), cross(p3, p4, p2)
    d3, d4 = cross(p1, p2, p3), cross(p1, p2, p4)
    if ((d1 > 0 and d2 < 0) or (d1 < 0 and d2 > 0)) and ((d3 > 0 and d4 < 0) or (d3 < 0 and d4 > 0)):
        return True

    def on(a, b, c):
        return min(a[0], b[0]) <= c[0] <= max(a[0], b[0]) and min(a[1], b[1]) <= c[1] <= max(a[1], b[1])
    return ((d1 == 0 and on(p3, p4, p1)) or (d2 == 0 and on(p3, p4, p2))
            or (d3 == 0 and on(p1, p2, p3)) or (d4 == 0 and on(p1, p2, p4)))


def is_simple_exact(ring):
    """Own exact test: no repeated vertex, non-adjacent edges disjoint, adjacent edges meet only at the shared vertex."""
    n = len(ring)
    if n < 3 or len(set(ring)) != n or area2(ring) == 0:
        return False
    for i in range(n):
        a, b = ring[i], ring[(i + 1) % n]
        for j in range(i + 1, n):
            c, d = ring[j], ring[(j + 1) % n]
            if j == i + 1 or (i == 0 and j == n - 1):
                # adjacent edges: must not fold back onto each other
                shared = b if j == i + 1 else a
                other1 = a if j == i + 1 else b
                other2 = d if j == i + 1 else c
                if cross(shared, other1, other2) == 0:
                    # collinear: fine if they point in opposite directions (a flat vertex), overlap otherwise
                    dot = (other1[0] - shared[0]) * (other2[0] - shared[0]) + (other1[1] - shared[1]) * (other2[1] - shared[1])
                    if dot > 0:
                        return False
                continue
            if _segments_cross(a, b, c, d):
                return False
    return True


# ---------------------------------------------------------------------------
# shape generators (integer rings, any orientation; validated by the caller)
# ---------------------------------------------------------------------------

FALLBACK_CONVEX = {
    3: [(0, 0), (5, 1), (2, 6)],
    4: [(0, 0), (6, 1), (7, 5), (1, 4)],
    5: [(1, 0), (5, 0), (7, 3), (3, 7), (0, 3)],
    6: [(2, 0), (5, 0), (7, 3), (5, 6), (2, 6), (0, 3)],
    7: [(2, 0), (5, 0), (7, 2), (7, 5), (4, 7), (1, 6), (0, 3)],
    8: [(2, 0), (5, 0), (7, 2), (7, 5), (5, 7), (2, 7), (0, 5), (0, 2)],
}


def gen_convex(rng, k, span=9):
    for _ in range(60):
        m = int(rng.integers(k, k + 7))
        pts = [(int(rng.integers(0, span + 1)), int(rng.integers(0, span + 1))) for _ in range(m)]
        hull = strict_hull(pts)
        if len(hull) == k:
            return hull
    return list(FALLBACK_CONVEX[k])


def insert_collinear(rng, ring, total, scale=None):
    """Scale the ring by 2 or 3 and put extra lattice points on its edges until it has `total` vertices."""
    scale = scale or int(pick(rng, [2, 2, 3]))
    ring = [(x * scale, y * scale) for x, y in ring]
    while len(ring) < total:
        k = int(rng.integers(len(ring)))
        a, b = ring[k], ring[(k + 1) % len(ring)]
        dx, dy = b[0] - a[0], b[1] - a[1]
        g = math.gcd(abs(dx), abs(dy))
        if g < 2:
            if all(math.gcd(abs(ring[(j + 1) % len(ring)][0] - ring[j][0]), abs(ring[(j + 1) % len(ring)][1] - ring[j][1])) < 2
                   for j in range(len(ring))):
                break
            continue
        t = int(rng.integers(1, g))
        p = (a[0] + dx // g * t, a[1] + dy // g * t)
        ring = ring[:k + 1] + [p] + ring[k + 1:]
    return ring


def _increasing(rng, count, lo=1, hi=3):
    vals, cur = [], 0
    for _ in range(count):
        cur += int(rng.integers(lo, hi + 1))
        vals.append(cur)
    return vals


def gen_rectilinear(rng):
    kind = pick(rng, ['L', 'L', 'U', 'T', 'stairs', 'S', 'notch'])
    if kind == 'L':
        c, a = _increasing(rng, 2)
        b, d = _increasing(rng, 2)
        return 'L', [(0, 0), (a, 0), (a, b), (c, b), (c, d), (0, d)]
    if kind == 'U':
        c1, c2, a = _increasing(rng, 3)
        b, d = _increasing(rng, 2)
        return 'U', [(0, 0), (a, 0), (a, d), (c2, d), (c2, b), (c1, b), (c1, d), (0, d)]
    if kind == 'T':
        c1, c2, a = _increasing(rng, 3)
        b, d = _increasing(rng, 2)
        return 'T', [(c1, 0), (c2, 0), (c2, b), (a, b), (a, d), (0, d), (0, b), (c1, b)]
    if kind == 'stairs':
        a1, a2, a3 = _increasing(rng, 3)
        b1, b2, b3 = _increasing(rng, 3)
        return 'stairs', [(0, 0), (a3, 0), (a3, b1), (a2, b1), (a2, b2), (a1, b2), (a1, b3), (0, b3)]
    if kind == 'S':
        x1, x2, x3 = _increasing(rng, 3)
        y1, y2 = _increasing(rng, 2)
        return 'S', [(0, 0), (x2, 0), (x2, y1), (x3, y1), (x3, y2), (x1, y2), (x1, y1), (0, y1)]
    # a rectangle with a triangular or slanted notch cut into one side (5..7 vertices)
    a, d = int(rng.integers(4, 8)), int(rng.integers(3, 7))
    n1 = int(rng.integers(1, a - 2))
    n2 = int(rng.integers(n1 + 1, a))
    depth = int(rng.integers(1, d))
    if chance(rng, 0.5):
        return 'notch', [(0, 0), (a, 0), (a, d), (n2, d), ((n1 + n2) // 2, d - depth), (n1, d), (0, d)]
    return 'notch', [(0, 0), (a, 0), (a, d), (n2, d), (n1, d - depth), (0, d)]


def gen_star(rng):
    kind = pick(rng, ['dart', 'star3', 'star4', 'star4'])
    if kind == 'dart':
        a = int(rng.integers(3, 8))
        b = int(rng.integers(1, 5))
        b2 = int(rng.integers(1, 5))
        c = int(rng.integers(1, a))
        return 'dart', [(0, 0), (a, -b), (c, 0), (a, b2)]
    if kind == 'star3':
        s = int(rng.integers(1, 3))
        outer = [(0, 6 * s), (-5 * s, -3 * s), (5 * s, -3 * s)]
        inner = [(-int(rng.integers(1, 2 * s + 1)), int(rng.integers(0, s + 1))), (int(rng.integers(-s, s + 1)), -int(rng.integers(1, s + 1))),
                 (int(rng.integers(1, 2 * s + 1)), int(rng.integers(0, s + 1)))]
        return 'star3', [outer[0], inner[0], outer[1], inner[1], outer[2], inner[2]]
    big = int(rng.integers(3, 7))
    rs = [int(rng.integers(1, (big + 1) // 2 + 1)) for _ in range(4)]      # r == big/2 gives exactly collinear inner vertices
    return 'star4', [(big, 0), (rs[0], rs[0]), (0, big), (-rs[1], rs[1]), (-big, 0), (-rs[2], -rs[2]), (0, -big), (rs[3], -rs[3])]


def gen_arrow(rng):
    kind = pick(rng, ['arrow7', 'chevron', 'arrow5'])
    if kind == 'arrow7':
        shaft = int(rng.integers(2, 6))
        head = int(rng.integers(1, 4))
        w = int(rng.integers(1, 3))
        ext = int(rng.integers(0, 3))      # 0: head base flush with the shaft (exactly collinear vertices)
        return 'arrow7', [(0, ext), (shaft, ext), (shaft, 0), (shaft + head, ext + w), (shaft, 2 * ext + 2 * w),
                          (shaft, ext + 2 * w), (0, ext + 2 * w)]
    if kind == 'chevron':
        a = int(rng.integers(2, 6))
        h = int(rng.integers(1, 4))
        t = int(rng.integers(1, 4))
        return 'chevron', [(0, 0), (a, h), (2 * a, 0), (2 * a, t), (a, h + t), (0, t)]
    a = int(rng.integers(2, 6))
    h = int(rng.integers(2, 6))
    d = int(rng.integers(1, h))
    return 'arrow5', [(0, 0), (a, d), (2 * a, 0), (2 * a - int(rng.integers(0, 2)), h), (int(rng.integers(0, 2)), h)]


def gen_star_shaped(rng, k):
    """k lattice points sorted by angle around the origin."""
    for _ in range(40):
        pts = set()
        while len(pts) < k:
            p = (int(rng.integers(-5, 6)), int(rng.integers(-5, 6)))
            if p != (0, 0):
                pts.add(p)
        # one point per direction
        seen, out = set(), []
        for p in sorted(pts, key=lambda q: (math.atan2(q[1], q[0]), q[0] * q[0] + q[1] * q[1])):
            g = math.gcd(abs(p[0]), abs(p[1]))
            d = (p[0] // g, p[1] // g)
            if d in seen:
                continue
            seen.add(d)
            out.append(p)
        if len(out) == k and is_simple_exact(out):
            return out
    return None


def gen_random_simple(rng, k):
    """k random lattice points, untangled into a simple polygon by 2-opt moves."""
    for _ in range(40):
        pts = set()
        while len(pts) < k:
            pts.add((int(rng.integers(0, 9)), int(rng.integers(0, 9))))
        ring = [sorted(pts)[i] for i in rng.permutation(k)]
        for _ in range(200):
            changed = False
            n = len(ring)
            for i in range(n):
                for j in range(i + 2, n):
                    if i == 0 and j == n - 1:
                        continue
                    a, b = ring[i], ring[i + 1]
                    c, d = ring[j], ring[(j + 1) % n]
                    if _segments_cross(a, b, c, d):
                        ring[i + 1:j + 1] = reversed(ring[i + 1:j + 1])
                        changed = True
            if not changed:
                break
        if is_simple_exact(ring):
            return ring
    return None


def lattice_face(rng, shape_class=None, sides=None):
    """-> (label, integer ring) of a simple polygon with 3..8 vertices, or None when the draw was not usable."""
    shape_class = shape_class or pick(rng, SHAPE_CLASSES)
    if shape_class == 'quads':
        # four-sided faces only: convex quadrilaterals and darts (one reflex vertex)
        if chance(rng, 0.4):
            a = int(rng.integers(3, 8))
            b = int(rng.integers(1, 5))
            b2 = int(rng.integers(1, 5))
            c = int(rng.integers(1, a))
            return 'dart', [(0, 0), (a, -b), (c, 0), (a, b2)]
        return 'convex4', gen_convex(rng, 4)
    if shape_class == 'convex':
        k = int(sides or rng.integers(3, 9))
        return 'convex%d' % k, gen_convex(rng, k)
    if shape_class == 'convex-collinear':
        k = int(rng.integers(3, 8))
        total = int(sides) if sides and sides > k else int(rng.integers(k + 1, 9))
        return 'convex%d+collinear' % k, insert_collinear(rng, gen_convex(rng, k, span=4), total)
    if shape_class == 'rectilinear':
        return gen_rectilinear(rng)
    if shape_class == 'rectilinear-collinear':
        base = pick(rng, [[(0, 0), (2, 0), (2, 1), (1, 1), (1, 2), (0, 2)],          # L
                          [(0, 0), (3, 0), (3, 1), (1, 1), (1, 3), (0, 3)],
                          [(0, 0), (3, 0), (3, 2), (2, 2), (2, 1), (0, 1)]])
        return 'L+collinear', insert_collinear(rng, base, int(rng.integers(7, 9)))
    if shape_class == 'star':
        return gen_star(rng)
    if shape_class == 'arrow':
        return gen_arrow(rng)
    if shape_class == 'star-shaped':
        k = int(sides or rng.integers(4, 9))
        ring = gen_star_shaped(rng, k)
        return ('star-shaped%d' % k, ring) if ring else None
    k = int(sides or rng.integers(4, 9))
    ring = gen_random_simple(rng, k)
    return ('random-simple%d' % k, ring) if ring else None


# integer linear maps with non-zero determinant (a negative determinant flips the winding)
LINEAR_MAPS = [((1, 0), (0, 1)), ((1, 0), (0, 1)), ((0, -1), (1, 0)), ((-1, 0), (0, -1)), ((0, 1), (-1, 0)),
               ((-1, 0), (0, 1)), ((0, 1), (1, 0)), ((1, 1), (0, 1)), ((1, 0), (1, 1)), ((2, 1), (1, 1)),
               ((1, -1), (1, 1)), ((1, 2), (-1, 1)), ((3, 1), (1, 2))]


def free_face_mesh(rng, nfaces, *, winding=None, shape_class=None, rotate=False, tiny=False):
    """-> (Mesh, winding, info) ; info[f] = dict(label, ring (floats as stored, open), concave, collinear, triple, cw,
    sides, lattice_collinear).

    winding: 'ccw' | 'cw' | 'mixed' (per face).  rotate=True applies one rigid float rotation to the whole mesh
    (collinear lattice vertices become *nearly* collinear float vertices; nothing is exact any more).
    Every face is checked with shapely (is_valid, simple ring, positive area) and with the exact rational test on the
    coordinates actually stored; anything else is discarded and redrawn.
    """
    winding = winding or pick(rng, ['ccw', 'cw', 'mixed'])
    scale_pow = int(pick(rng, [0, 0, -1, -2, 1]))       # coordinates are multiples of 2**scale_pow: exact in float64
    scale = 2.0 ** scale_pow
    x0 = int(rng.integers(-40, 160))
    y0 = int(rng.integers(-60, 40))
    theta = float(rng.uniform(0.0, 2 * math.pi)) if rotate else 0.0
    ct, st = math.cos(theta), math.sin(theta)

    if tiny:
        # cells about 1e-4 degrees across, far from the origin (147 E, 43 S): absolute and relative tolerances that are
        # harmless at "degree" scale are not at this one.  147 + k * 2**-14 is still exact in float64.
        scale_pow, scale = -14, 2.0 ** -14
        x0, y0 = 147 * 2 ** 14, -43 * 2 ** 14

    def to_float(ix, iy):
        fx, fy = (x0 + ix) * scale, (y0 + iy) * scale
        if rotate:
            return (ct * fx - st * fy, st * fx + ct * fy)
        return (fx, fy)

    cols = max(1, int(math.ceil(math.sqrt(nfaces))))
    rings, info = [], []
    discarded = 0
    tries = 0
    while len(rings) < nfaces and tries < nfaces * 30:
        tries += 1
        drawn = lattice_face(rng, shape_class)
        if drawn is None or drawn[1] is None:
            discarded += 1
            continue
        label, ring = drawn
        (a, b), (c, d) = pick(rng, LINEAR_MAPS)
        ring = [(a * x + b * y, c * x + d * y) for x, y in ring]
        if not (3 <= len(ring) <= 8) or not is_simple_exact(ring):
            discarded += 1
            continue
        # own tile: translate so that the bounding box starts at the tile origin
        minx = min(p[0] for p in ring)
        miny = min(p[1] for p in ring)
        if max(p[0] for p in ring) - minx >= TILE or max(p[1] for p in ring) - miny >= TILE:
            discarded += 1
            continue
        t = len(rings)
        ox, oy = (t % cols) * TILE, (t // cols) * TILE
        ring = [(p[0] - minx + ox, p[1] - miny + oy) for p in ring]
        want_cw = winding == 'cw' or (winding == 'mixed' and chance(rng, 0.5))
        if (area2(ring) < 0) != want_cw:
            ring = ring[::-1]
        r = int(rng.integers(len(ring)))
        ring = ring[r:] + ring[:r]
        fring = [to_float(ix, iy) for ix, iy in ring]
        poly = Polygon(fring)
        ering = exact_ring(fring)
        if not (poly.is_valid and poly.exterior.is_simple and poly.area > 0 and is_simple_exact(ering)
                and (area2(ering) < 0) == want_cw):
            discarded += 1
            continue
        concave, flat, triple = classify(ering)
        rings.append(fring)
        info.append({'label': label, 'ring': fring, 'concave': concave, 'collinear': flat, 'triple': triple,
                     'cw': want_cw, 'sides': len(ring), 'start': r, 'lattice_collinear': classify(ring)[2],
                     'local': [(p[0] - ox, p[1] - oy) for p in ring]})
    if not rings:
        raise RuntimeError('no usable face drawn')
    # each face owns its nodes; node numbers are shuffled over the whole mesh
    nnode = sum(len(r) for r in rings)
    perm = [int(p) for p in rng.permutation(nnode)]
    x = numpy.empty(nnode)
    y = numpy.empty(nnode)
    faces = []
    k = 0
    for ring in rings:
        face = []
        for (fx, fy) in ring:
            node = perm[k]
            k += 1
            x[node], y[node] = fx, fy
            face.append(node)
        faces.append(face)
    order = [int(i) for i in rng.permutation(len(faces))]
    faces = [faces[i] for i in order]
    info = [info[i] for i in order]
    mesh = Mesh(faces, x, y)
    mesh.discarded = discarded
    return mesh, winding, info


# ---------------------------------------------------------------------------
# exact triangle predicates (Fractions built from floats are exact)
# ---------------------------------------------------------------------------

def exact_ring(ring):
    return [(Fraction(p[0]), Fraction(p[1])) for p in ring]


def triangles_overlap(t1, t2):
    """Do the INTERIORS of two non-degenerate triangles intersect?  Separating axis theorem, exact arithmetic."""
    for tri, other in ((t1, t2), (t2, t1)):
        s = 1 if area2(tri) > 0 else -1
        for k in range(3):
            a, b = tri[k], tri[(k + 1) % 3]
            if all(cross(a, b, p) * s <= 0 for p in other):
                return False
    return True
