"""Shared point-location oracle: brute force over cell polygons with the GEOS intersects predicate."""
from ..geomgen import brute_hits, model_polygons, polygon_matches


def oracle_polygons(obs, model, epolys):
    """Polygon array the brute-force point oracle runs over.

    Stored geometry: polygons built from the abstract model (exact).  Derived geometry (CF grids without stored
    bounds): emsarray's own array, after asserting it agrees with the model within 1e-9 - boundary points are
    undecidable from a model that is only 1e-9-close.  Returns None when that precondition fails.
    """
    polys = model_polygons(model)
    if not model.derived_geometry:
        for n in model.skip_cells:
            polys[n] = None
        return polys
    ok = len(epolys) == len(polys)
    if ok:
        for n, (mp, ep) in enumerate(zip(polys, epolys)):
            if n in model.skip_cells:
                continue
            if (mp is None) != (ep is None) or (mp is not None and not polygon_matches(ep, model.cells[n], tol=1e-9, same_start=False)):
                ok = False
                break
    if not obs.expect(ok, 'derived polygons agree with the model within 1e-9 (precondition of the point oracle)'):
        return None
    obs.cls('oracle:brute-force-over-derived-polygon-array')
    return [None if n in model.skip_cells else p for n, p in enumerate(epolys)]


def near_skipped(model, pt):
    if not model.skip_cells:
        return False
    from shapely.geometry import Polygon
    return any(Polygon(model.cells[n]).buffer(1e-6).intersects(pt) for n in model.skip_cells)


def locate(polys, pt):
    hits = brute_hits(polys, pt)
    return (min(hits) if hits else None), hits
