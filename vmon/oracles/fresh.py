"""Fresh-interpreter helper for C11 and C16.

Parent side:  run_fresh(specs, hashseed, ...) starts ONE new interpreter (subprocess.run with a timeout, PYTHONHASHSEED set
as requested, everything else - PYTHONPATH in particular - inherited so that the child imports the same emsarray source and
the same vmon) and hands it a batch of dataset specs on stdin.

Child side (python -m vmon.oracles.fresh): regenerates every dataset from its spec with the same random streams as the
parent (build_model), and reports for each one what emsarray says in THIS process:
    detect : name of get_dataset_convention(ds), name of type(ds.ems)
    key    : make_cache_key(ds)
    canon  : the key with attributes serialised canonically (see canon.py; predicate of the marshal known finding)
    fp     : my own fingerprint of the geometry variables (equal fingerprints <=> same generated geometry)
Nothing is asserted in the child: all comparisons happen in the parent monitor.
"""
import json
import os
import subprocess
import sys

HASHSEEDS = ['0', '1', '4242', 'random']


def build_model(seed, prop, case, convention, dress_variant=0, stream=''):
    """geometry from stream '<stream>geom', dressing (time, depth, data variables) from stream '<stream>dress<variant>':
    two variants of one case share the geometry and differ in every non-geometry respect."""
    from vmon import rng
    from vmon.model import grids, make
    model = make(rng.gen(seed, prop, case, stream + 'geom'), convention)
    grids.dress(model, rng.gen(seed, prop, case, '%sdress%d' % (stream, dress_variant)))
    return model


def run_fresh(request, hashseed, timeout=600):
    """Run one batch in a new interpreter. Returns (response dict | None, error text | None)."""
    from vmon import VERIF
    env = dict(os.environ)
    env['PYTHONHASHSEED'] = str(hashseed)
    try:
        proc = subprocess.run(['/venv/bin/python', '-m', 'vmon.oracles.fresh'], input=json.dumps(request), env=env,
                              cwd=VERIF, capture_output=True, text=True, timeout=timeout)
    except subprocess.TimeoutExpired:
        return None, 'fresh interpreter (PYTHONHASHSEED=%s) exceeded %d s' % (hashseed, timeout)
    if proc.returncode != 0:
        return None, 'fresh interpreter (PYTHONHASHSEED=%s) exit %s: %s' % (hashseed, proc.returncode, proc.stderr[-1500:])
    try:
        line = [ln for ln in proc.stdout.splitlines() if ln.startswith('{"fresh"')][-1]
        return json.loads(line), None
    except Exception as exc:  # noqa: BLE001
        return None, 'fresh interpreter (PYTHONHASHSEED=%s) unreadable output: %r %s' % (hashseed, exc, proc.stdout[-500:])


def _child(request):
    import warnings
    warnings.simplefilter('ignore')
    import emsarray
    from emsarray.conventions import get_dataset_convention
    from emsarray.operations.cache import make_cache_key
    from vmon.oracles import canon
    out = {'fresh': 1, 'hashseed_env': os.environ.get('PYTHONHASHSEED'), 'hash_of_abc': hash('abc'),
           'emsarray_file': emsarray.__file__, 'results': {}}
    want = request.get('want', ['detect'])
    for spec in request['specs']:
        res = {}
        try:
            model = build_model(request['seed'], request['prop'], spec['case'], spec['convention'],
                                spec.get('variant', 0), spec.get('stream', ''))
            ds = model.encode()
            if 'detect' in want:
                klass = get_dataset_convention(ds)
                res['detect'] = None if klass is None else klass.__name__
                res['ems'] = type(ds.ems).__name__
            if 'key' in want:
                res['key'] = make_cache_key(ds)
                res['key_again'] = make_cache_key(ds)
                res['canon'] = canon.canonical_cache_key(model.encode())
                res['fp'] = canon.fingerprint(ds, model.geometry_names)
                res['inventory'] = sorted(str(n) for n in ds.ems.get_all_geometry_names())
        except Exception as exc:  # noqa: BLE001
            res['error'] = '%s: %s' % (type(exc).__name__, str(exc)[:300])
        out['results'][str(spec['id'])] = res
    return out


if __name__ == '__main__':
    response = _child(json.loads(sys.stdin.read()))
    sys.stdout.write('\n' + json.dumps(response) + '\n')
