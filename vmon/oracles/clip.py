"""Oracle for clip masks and clipped datasets, computed from the abstract model only."""
import copy
import math

import numpy


def dilate(mask2d, b):
    nj, ni = mask2d.shape
    out = numpy.zeros_like(mask2d)
    for j in range(nj):
        for i in range(ni):
            hit = False
            for jj in range(max(0, j - b), min(nj, j + b + 1)):
                for ii in range(max(0, i - b), min(ni, i + b + 1)):
                    if mask2d[jj, ii]:
                        hit = True
            out[j, i] = hit
    return out


def file_face_edges(model, edge_node_rows):
    """face -> edges under the edge numbering the FILE defines (supplied face_edge, else the edge-node rows in use)."""
    mesh = model.mesh
    if 'face_edge' in model.encoding['supplied']:
        return model.s_face_edges
    number = {frozenset(r): i for i, r in enumerate(edge_node_rows)}
    return [[number[frozenset(p)] for p in mesh.pairs(fc)] for fc in mesh.faces]


def expected_selection(model, s0, b, edge_node_rows=None):
    """-> {'kind': sorted list of kept linear indexes} for every grid kind of the model."""
    conv = model.convention
    face = model.kinds['face']
    if conv == 'ugrid':
        mesh = model.mesh
        keep = set(s0)
        for _ in range(b):
            nodes = {nd for f in keep for nd in mesh.faces[f]}
            keep = {f for f in range(mesh.nface) if f in keep or (set(mesh.faces[f]) & nodes)}
        out = {'face': sorted(keep), 'node': sorted({nd for f in keep for nd in mesh.faces[f]})}
        if model.has_edges:
            fe = file_face_edges(model, edge_node_rows)
            out['edge'] = sorted({e for f in keep for e in fe[f]})
        return out
    m0 = numpy.zeros(face.shape, dtype=bool)
    for n in s0:
        m0[face.multi(n)] = True
    want = dilate(m0, b)
    out = {'face': sorted(face.linear(idx) for idx in zip(*numpy.nonzero(want)))}
    if conv == 'shoc_standard':
        nj, ni = face.shape

        def f(j, i):
            return 0 <= j < nj and 0 <= i < ni and bool(want[j, i])
        left, back, node = model.kinds['left'], model.kinds['back'], model.kinds['node']
        out['left'] = sorted(left.linear((j, i)) for j in range(nj) for i in range(ni + 1) if f(j, i - 1) or f(j, i))
        out['back'] = sorted(back.linear((j, i)) for j in range(nj + 1) for i in range(ni) if f(j - 1, i) or f(j, i))
        out['node'] = sorted(node.linear((j, i)) for j in range(nj + 1) for i in range(ni + 1)
                             if f(j - 1, i - 1) or f(j - 1, i) or f(j, i - 1) or f(j, i))
    return out


def grid_extent(model, selection):
    """Bounding slice per dimension for the structured conventions: {dim: (lo, hi)}."""
    ext = {}
    for kname, kept in selection.items():
        kind = model.kinds[kname]
        multis = [kind.multi(n) for n in kept]
        for pos, dim in enumerate(kind.dims):
            vals = [m[pos] for m in multis]
            ext[dim] = (min(vals), max(vals) + 1)
    return ext


def twin_with_new_values(model, offset=500000.0):
    """Same geometry, different data: every stored id shifted (used for the save-mask / apply-elsewhere history)."""
    twin = copy.copy(model)
    twin.variables = {}
    for name, var in model.variables.items():
        v = copy.copy(var)
        v.canon = var.canon + offset
        if v.dtype == 'int16':
            v.dtype = 'int32'
        if v.dtype == 'float32' and numpy.nanmax(v.canon) >= 2 ** 24:
            v.dtype = 'float64'
        twin.variables[name] = v
    return twin


def rank_map(kept):
    return {old: new for new, old in enumerate(sorted(kept))}


def isnan(x):
    return isinstance(x, float) and math.isnan(x)
