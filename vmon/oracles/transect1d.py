"""Oracle helpers for C18 (transects): path pieces as 1-D intervals, and the documented distance metric.

Everything here is computed from the path and the abstract model's polygons with the trusted base only
(GEOS through shapely, cartopy's CRS conversion, pyproj's geodesic); nothing imports emsarray.

A *simple* path is parametrised by its planar arc length s = line.project(point).  Every connected piece of
the path (what `polygon & path` is made of) is a sub-arc, hence an interval [s0, s1]; unions, differences
and multiplicities of pieces are then exact 1-D interval arithmetic instead of fragile overlays of
(nearly) collinear line work.
"""
from shapely.geometry import Point

EPS = 1e-12

_CRS = {}


def line_parts(geom):
    """All LineStrings (positive length) inside any geometry."""
    if geom is None or geom.is_empty:
        return []
    t = geom.geom_type
    if t == 'LineString':
        return [geom] if geom.length > 0 else []
    if t in ('MultiLineString', 'GeometryCollection'):
        out = []
        for g in geom.geoms:
            out.extend(line_parts(g))
        return out
    return []


class Piece:
    """Sub-arc of the path: planar positions s0 <= s1 and the coordinates found there."""
    __slots__ = ('s0', 's1', 'p0', 'p1', 'label')

    def __init__(self, s0, s1, p0, p1, label=None):
        self.s0, self.s1, self.p0, self.p1, self.label = s0, s1, p0, p1, label

    @property
    def length(self):
        return self.s1 - self.s0

    def __repr__(self):
        return 'Piece(%r, %r, %r)' % (self.s0, self.s1, self.label)


def piece_of(line, geom, label=None):
    """Interval of one LineString lying on the path, oriented along the path."""
    a = tuple(float(v) for v in geom.coords[0][:2])
    b = tuple(float(v) for v in geom.coords[-1][:2])
    sa = float(line.project(Point(a)))
    sb = float(line.project(Point(b)))
    if sa <= sb:
        return Piece(sa, sb, a, b, label)
    return Piece(sb, sa, b, a, label)


def union(pieces):
    """Maximal pieces: merge intervals that overlap or touch (EPS)."""
    out = []
    for p in sorted(pieces, key=lambda q: (q.s0, q.s1)):
        if out and p.s0 <= out[-1].s1 + EPS:
            if p.s1 > out[-1].s1:
                out[-1].s1, out[-1].p1 = p.s1, p.p1
        else:
            out.append(Piece(p.s0, p.s1, p.p0, p.p1))
    return out


def measure(pieces):
    return sum(p.length for p in union(pieces))


def _indicator_breaks(*lists):
    xs = sorted({v for lst in lists for p in lst for v in (p.s0, p.s1)})
    return xs


def _covers(merged, x):
    for p in merged:
        if p.s0 <= x <= p.s1:
            return True
    return False


def symmetric_difference_measure(a, b):
    """Planar length of (A xor B) for two sets of pieces."""
    ua, ub = union(a), union(b)
    xs = _indicator_breaks(ua, ub)
    total = 0.0
    for x0, x1 in zip(xs[:-1], xs[1:]):
        mid = (x0 + x1) / 2
        if _covers(ua, mid) != _covers(ub, mid):
            total += x1 - x0
    return total


def multiplicity(pieces_by_label):
    """[(x0, x1, (labels...))] elementary intervals covered by >= 2 different labels.

    pieces_by_label: {label: [Piece]} (pieces of one label are merged first: a label counts once).
    """
    merged = {lab: union(ps) for lab, ps in pieces_by_label.items()}
    xs = _indicator_breaks(*merged.values())
    out = []
    for x0, x1 in zip(xs[:-1], xs[1:]):
        if not x1 > x0:
            continue
        mid = (x0 + x1) / 2
        labs = tuple(sorted(lab for lab, ps in merged.items() if _covers(ps, mid)))
        if len(labs) >= 2:
            out.append((x0, x1, labs))
    return out


def coords_at(pieces):
    """position -> coordinates for every end of the given pieces (the exact GEOS coordinates)."""
    d = {}
    for p in pieces:
        d.setdefault(p.s0, p.p0)
        d.setdefault(p.s1, p.p1)
    return d


# ---------------------------------------------------------------------------------------------------
# the documented metric, recomputed without emsarray
# ---------------------------------------------------------------------------------------------------

def _crs():
    if not _CRS:
        import cartopy.crs as ccrs
        import pyproj
        pc = ccrs.PlateCarree()                    # documented default of Convention.data_crs
        _CRS['pc'] = pc
        _CRS['gd'] = ccrs.Geodetic(globe=pc.globe)
        _CRS['geod'] = pyproj.Geod(ellps='WGS84')  # pc.globe is the WGS84 ellipsoid
    return _CRS['pc'], _CRS['gd'], _CRS['geod']


def az_distance(a, b):
    """Azimuthal-equidistant distance (metres) from a to b, both given in the data CRS (PlateCarree).

    emsarray documents the distance in an azimuthal equidistant projection centred on a, whose radial distance is
    the geodesic distance: both points go through cartopy's PlateCarree -> geodetic conversion (which is not the
    identity with an ellipsoidal PlateCarree, PROJ >= 9.x) and the WGS84 geodesic between them is measured.
    (Before the repository fix recorded as C18 'platecarree-latitude-offset' the projection was centred on the RAW
    numbers of a, which made d(a, a) = 13 km at latitude -19 in this environment.)
    """
    pc, gd, geod = _crs()
    ax, ay = gd.transform_point(a[0], a[1], pc)
    bx, by = gd.transform_point(b[0], b[1], pc)
    return float(geod.inv(float(ax), float(ay), float(bx), float(by))[2])


class Metric:
    """Distance along the path as documented: vertex distances accumulated leg by leg, a point is measured
    from the last vertex whose normalised planar projection is <= the point's."""

    def __init__(self, line):
        self.line = line
        self.vertices = [tuple(float(v) for v in c[:2]) for c in line.coords]
        self.norm = [0.0] + [float(line.project(Point(c), normalized=True)) for c in self.vertices[1:]]
        self.acc = [0.0]
        for i in range(1, len(self.vertices)):
            self.acc.append(self.acc[-1] + az_distance(self.vertices[i - 1], self.vertices[i]))
        self.self_distance = [az_distance(v, v) for v in self.vertices]

    def governing(self, p):
        s = float(self.line.project(Point(p), normalized=True))
        best = 0
        for k, n in enumerate(self.norm):
            if n <= s:
                best = k
        return best

    def distance(self, p):
        k = self.governing(p)
        return self.acc[k] + az_distance(self.vertices[k], p)

    @property
    def total(self):
        return self.acc[-1]
