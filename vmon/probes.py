"""Instrumentation: reach monitor (sys.monitoring), in-situ contracts (icontract), cfunits stand-in."""
import functools
import importlib
import sys
import types

from . import add_deps

# ---------------------------------------------------------------------------
# Reach monitor
# ---------------------------------------------------------------------------

TOOL_ID = 3  # sys.monitoring.PROFILER_ID + 1 is free for tools; 3 is unused by coverage/debuggers here


def _unwrap(obj):
    seen = 0
    while seen < 10:
        seen += 1
        if isinstance(obj, (classmethod, staticmethod)):
            obj = obj.__func__
        elif isinstance(obj, property):
            obj = obj.fget
        elif isinstance(obj, functools.cached_property):
            obj = obj.func
        elif hasattr(obj, '__wrapped__'):
            obj = obj.__wrapped__
        else:
            break
    return obj


def resolve(spec):
    """'emsarray.conventions.grid:CFGrid.make_clip_mask' -> function object (unwrapped)."""
    modname, _, qual = spec.partition(':')
    obj = importlib.import_module(modname)
    for part in qual.split('.'):
        if isinstance(obj, type):
            found = None
            for klass in obj.__mro__:
                if part in klass.__dict__:
                    found = klass.__dict__[part]
                    break
            if found is None:
                raise AttributeError(spec)
            obj = found
        else:
            obj = getattr(obj, part)
    return _unwrap(obj)


def _code_objects(code):
    out = [code]
    for const in code.co_consts:
        if isinstance(const, types.CodeType):
            out.extend(_code_objects(const))
    return out


class ReachMonitor:
    """Counts calls and records which source lines of the anchored functions were executed."""

    def __init__(self, specs):
        self.specs = list(specs)
        self.codes = {}      # code -> spec
        self.lines = {}      # spec -> set of all line numbers
        self.hit = {}        # spec -> set of hit lines
        self.calls = {}      # spec -> count
        self.errors = []
        self.active = False

    def start(self):
        mon = getattr(sys, 'monitoring', None)
        if mon is None:
            self.errors.append('sys.monitoring unavailable')
            return
        for spec in self.specs:
            try:
                fn = resolve(spec)
                code = fn.__code__
            except Exception as exc:  # noqa: BLE001
                self.errors.append('%s: %s' % (spec, exc))
                continue
            self.lines[spec] = set()
            self.hit[spec] = set()
            self.calls[spec] = 0
            for idx, c in enumerate(_code_objects(code)):
                self.codes[c] = (spec, idx == 0)
                first = c.co_firstlineno
                for _, _, line in c.co_lines():
                    if line is not None and line != first:
                        self.lines[spec].add(line)
        try:
            mon.use_tool_id(TOOL_ID, 'vmon-reach')
        except ValueError:
            pass
        ev = mon.events
        mon.register_callback(TOOL_ID, ev.LINE, self._on_line)
        mon.register_callback(TOOL_ID, ev.PY_START, self._on_start)
        for c, (spec, top) in self.codes.items():
            mon.set_local_events(TOOL_ID, c, ev.LINE | (ev.PY_START if top else 0))
        self.active = True

    def _on_line(self, code, line):
        entry = self.codes.get(code)
        if entry is not None:
            self.hit[entry[0]].add(line)
        return sys.monitoring.DISABLE

    def _on_start(self, code, offset):
        entry = self.codes.get(code)
        if entry is not None:
            self.calls[entry[0]] += 1

    def stop(self):
        if not self.active:
            return
        mon = sys.monitoring
        for c in self.codes:
            mon.set_local_events(TOOL_ID, c, 0)
        mon.register_callback(TOOL_ID, mon.events.LINE, None)
        mon.register_callback(TOOL_ID, mon.events.PY_START, None)
        try:
            mon.free_tool_id(TOOL_ID)
        except Exception:  # noqa: BLE001
            pass
        self.active = False

    def report(self):
        out = {}
        for spec in self.lines:
            total = self.lines[spec]
            hit = self.hit[spec] & total
            out[spec] = {'calls': self.calls[spec], 'lines_hit': sorted(hit), 'lines_total': sorted(total)}
        return out


def merge_reach(reports):
    merged = {}
    for rep in reports:
        for spec, r in rep.items():
            m = merged.setdefault(spec, {'calls': 0, 'hit': set(), 'total': set()})
            m['calls'] += r['calls']
            m['hit'] |= set(r['lines_hit'])
            m['total'] |= set(r['lines_total'])
    return {
        spec: {'calls': m['calls'], 'lines_hit': len(m['hit']), 'lines_total': len(m['total']),
               'unreached_lines': sorted(m['total'] - m['hit'])}
        for spec, m in sorted(merged.items())
    }


# ---------------------------------------------------------------------------
# In-situ contracts
# ---------------------------------------------------------------------------

class ContractBroken(Exception):
    pass


def _icontract():
    add_deps()
    try:
        import icontract
        return icontract
    except Exception:  # noqa: BLE001
        return None


CONTRACT_ENGINE = None


def attach_post(module, name, post, obs, label=None, also=()):
    """Rebind module.name to a version that evaluates post(args..., result) after every call.

    `post(result, *args, **kwargs)` records into `obs` itself and must not raise; the wrapper counts
    evaluations in obs.contracts[label].  `also` lists other modules that imported the same name with
    `from m import name` and need rebinding too.
    Uses icontract.ensure when available; otherwise an equivalent functools wrapper.
    """
    global CONTRACT_ENGINE
    label = label or '%s.%s' % (module.__name__, name)
    orig = getattr(module, name)
    if getattr(orig, '_vmon_contract', False):
        return orig
    ic = _icontract()

    def run_post(result, args, kwargs):
        obs.contracts[label] += 1
        try:
            post(result, *args, **kwargs)
        except Exception as exc:  # noqa: BLE001
            obs.harness_error('contract ' + label, exc)

    if ic is not None:
        CONTRACT_ENGINE = 'icontract ' + getattr(ic, '__version__', '?')

        # icontract matches condition argument names against the function's; a catch-all condition
        # (`_ARGS`/`_KWARGS` + `result`) lets one named function serve every signature.
        def condition(_ARGS, _KWARGS, result):
            run_post(result, _ARGS, _KWARGS)
            return True

        wrapped = ic.ensure(condition, error=ContractBroken)(orig)
    else:
        CONTRACT_ENGINE = 'builtin-wrapper'

        @functools.wraps(orig)
        def wrapped(*args, **kwargs):
            result = orig(*args, **kwargs)
            run_post(result, args, kwargs)
            return result

    wrapped._vmon_contract = True
    wrapped._vmon_orig = orig
    setattr(module, name, wrapped)
    for other in also:
        if getattr(other, name, None) is orig:
            setattr(other, name, wrapped)
    return wrapped


# ---------------------------------------------------------------------------
# cfunits stand-in (the real one needs the udunits2 C library, absent here)
# ---------------------------------------------------------------------------

def install_cfunits_stub():
    if 'cfunits' in sys.modules:
        return
    mod = types.ModuleType('cfunits')

    class Units:
        def __init__(self, units=None, **kwargs):
            self.units = units

        def formatted(self, *args, **kwargs):
            return str(self.units)

    mod.Units = Units
    mod.__vmon_stub__ = True
    sys.modules['cfunits'] = mod


class PackageCoverage:
    """Development aid (tools/coverage_gaps.py): which lines of the whole emsarray package did a workload execute?
    One global LINE callback that disables each location after its first hit, so the cost is one event per line."""
    TOOL = 4

    def __init__(self, prefix):
        self.prefix = prefix
        self.hit = set()

    def start(self):
        mon = sys.monitoring
        mon.use_tool_id(self.TOOL, 'vmon-cover')
        mon.register_callback(self.TOOL, mon.events.LINE, self._on_line)
        mon.set_events(self.TOOL, mon.events.LINE)

    def _on_line(self, code, line):
        fn = code.co_filename
        if fn.startswith(self.prefix):
            self.hit.add((fn[len(self.prefix):], line))
        return sys.monitoring.DISABLE

    def stop(self):
        mon = sys.monitoring
        mon.set_events(self.TOOL, 0)
        mon.register_callback(self.TOOL, mon.events.LINE, None)
        mon.free_tool_id(self.TOOL)
