"""Query points, clip geometries and polylines derived from an abstract model (never from emsarray)."""
import numpy
import shapely
from shapely.geometry import LineString, MultiPoint, MultiPolygon, Point, Polygon, box

from .rng import chance, pick


def model_polygons(model):
    """shapely polygons built from the model's own rings (None for holes and invalid cells)."""
    out = []
    invalid = set(model.invalid_cells)
    derived = getattr(model, 'derived_geometry', False)
    for n, ring in enumerate(model.cells):
        if ring is None or n in invalid:
            out.append(None)
        else:
            poly = Polygon(ring)
            if derived and not poly.is_valid:
                poly = None     # synthesised corners can fold over: an invalid cell is dropped (with a warning)
            out.append(poly)
    return out


def hull_bounds(model):
    xs = [p[0] for ring in model.cells if ring is not None for p in ring]
    ys = [p[1] for ring in model.cells if ring is not None for p in ring]
    if not xs:
        return 0.0, 0.0, 1.0, 1.0
    return min(xs), min(ys), max(xs), max(ys)


def brute_hits(polys, geom):
    """Linear indexes of model cells whose polygon intersects geom (GEOS predicate, plain loop)."""
    return [n for n, p in enumerate(polys) if p is not None and p.intersects(geom)]


# The same coordinates are put to EVERY dataset a worker handles: state leaking from one dataset (or convention
# instance) into the next - a process-wide cache keyed by coordinates, say - shows up as a wrong answer here.
FIXED_POINTS = [(110.0, -35.0), (120.5, -25.5), (125.0, -30.0), (131.25, -20.5), (140.0, -15.0), (149.5, -12.0)]


def query_points(model, rng, count, fixed=True):
    """[(Point, class)] over: interior, shared_vertex, shared_edge, hole_interior, just_outside, far_outside, fixed."""
    return _query_points(model, rng, count) + ([(Point(*xy), 'fixed_probe') for xy in FIXED_POINTS] if fixed else [])


def _query_points(model, rng, count):
    polys = model_polygons(model)
    live = [n for n, p in enumerate(polys) if p is not None]
    if not live:
        return [(Point(float(rng.uniform(0, 1)), float(rng.uniform(0, 1))), 'far_outside') for _ in range(count)]
    minx, miny, maxx, maxy = hull_bounds(model)
    span = max(maxx - minx, maxy - miny, 1e-6)
    verts = [p for ring in model.cells if ring is not None for p in ring]
    out = []
    classes = ['interior', 'interior', 'shared_vertex', 'shared_vertex', 'shared_edge', 'just_outside',
               'far_outside', 'hole_interior', 'near_vertex']
    for _ in range(count):
        c = pick(rng, classes)
        if c == 'interior':
            n = pick(rng, live)
            ring = model.cells[n]
            if chance(rng, 0.5):
                w = rng.dirichlet(numpy.ones(len(ring)))
                x = float(sum(wi * p[0] for wi, p in zip(w, ring)))
                y = float(sum(wi * p[1] for wi, p in zip(w, ring)))
                pt = Point(x, y)
            else:
                pt = polys[n].representative_point()
        elif c == 'shared_vertex':
            pt = Point(*pick(rng, verts))
        elif c == 'near_vertex':
            v = pick(rng, verts)
            pt = Point(v[0] + float(rng.choice([-1e-9, 1e-9, 0, 1e-10, -1e-10, 3e-8])), v[1] + float(rng.choice([-1e-9, 1e-9, 0, 1e-10, -1e-10, -3e-8])))
        elif c == 'shared_edge':
            ring = model.cells[pick(rng, live)]
            k = int(rng.integers(len(ring)))
            a, b = ring[k], ring[(k + 1) % len(ring)]
            t = pick(rng, [0.5, 0.25, 0.75, float(rng.random())])
            pt = Point(a[0] + t * (b[0] - a[0]), a[1] + t * (b[1] - a[1]))
        elif c == 'hole_interior':
            holes = getattr(model, 'hole_centres', None)
            if holes:
                pt = Point(*pick(rng, holes))
            else:
                c = 'far_outside'
                pt = Point(maxx + span * 3, maxy + span * 2)
        elif c == 'just_outside':
            side = pick(rng, ['l', 'r', 'b', 't'])
            eps = pick(rng, [1e-9, 1e-7, 1e-6, 1e-5, 1e-4, span / max(2, len(model.cells))])
            x = float(rng.uniform(minx, maxx))
            y = float(rng.uniform(miny, maxy))
            pt = {'l': Point(minx - eps, y), 'r': Point(maxx + eps, y), 'b': Point(x, miny - eps), 't': Point(x, maxy + eps)}[side]
        else:
            pt = Point(minx - span * float(rng.uniform(2, 9)), maxy + span * float(rng.uniform(2, 9)))
        out.append((pt, c))
    return out


def all_vertices(model):
    seen = []
    s = set()
    for ring in model.cells:
        if ring is None:
            continue
        for p in ring:
            if p not in s:
                s.add(p)
                seen.append(p)
    return seen


def _ring_vertices(poly):
    return [tuple(xy) for xy in poly.exterior.coords[:-1]]


def clip_geometries(model, rng, count, classes=None):
    """[(geometry, class)] - valid shapely geometries of many kinds positioned relative to the model."""
    minx, miny, maxx, maxy = hull_bounds(model)
    w, h = max(maxx - minx, 1e-6), max(maxy - miny, 1e-6)
    verts = all_vertices(model)
    polys = model_polygons(model)
    live = [n for n, p in enumerate(polys) if p is not None]
    if not live:
        return []
    out = []
    classes = list(classes) if classes else ['box_inside', 'box_inside', 'cover_all', 'hug_border', 'sliver', 'convex', 'concave', 'multi',
               'line', 'point', 'touch_vertex', 'touch_edge', 'one_cell', 'cell_exact',
               'diagonal_line', 'big_triangle', 'multi_overlap', 'ring', 'around_one_cell', 'around_one_cell', 'scattered_cells']
    for _ in range(count):
        c = pick(rng, classes)
        if c == 'box_inside':
            x0 = float(rng.uniform(minx, maxx - 0.05 * w))
            y0 = float(rng.uniform(miny, maxy - 0.05 * h))
            g = box(x0, y0, float(rng.uniform(x0 + 0.02 * w, maxx)), float(rng.uniform(y0 + 0.02 * h, maxy)))
        elif c == 'cover_all':
            g = box(minx - w, miny - h, maxx + w, maxy + h)
        elif c == 'hug_border':
            side = pick(rng, ['l', 'r', 'b', 't'])
            t = float(rng.uniform(0.02, 0.3))
            g = {'l': box(minx - w, miny - h, minx + t * w, maxy + h), 'r': box(maxx - t * w, miny - h, maxx + w, maxy + h),
                 'b': box(minx - w, miny - h, maxx + w, miny + t * h), 't': box(minx - w, maxy - t * h, maxx + w, maxy + h)}[side]
        elif c == 'sliver':
            x0 = float(rng.uniform(minx, maxx))
            g = box(x0, miny - h, x0 + 1e-7 * w, maxy + h)
        elif c == 'convex':
            pts = [(float(rng.uniform(minx - 0.2 * w, maxx + 0.2 * w)), float(rng.uniform(miny - 0.2 * h, maxy + 0.2 * h)))
                   for _ in range(int(rng.integers(3, 8)))]
            g = MultiPoint(pts).convex_hull
            if g.geom_type != 'Polygon':
                g = box(minx, miny, minx + w / 2, miny + h / 2)
        elif c == 'concave':
            cx, cy = float(rng.uniform(minx, maxx)), float(rng.uniform(miny, maxy))
            k = int(rng.integers(5, 9))
            ang = numpy.sort(rng.uniform(0, 2 * numpy.pi, size=k))
            rad = rng.uniform(0.1, 0.6, size=k) * max(w, h)
            g = Polygon([(cx + r * numpy.cos(a), cy + r * numpy.sin(a)) for a, r in zip(ang, rad)])
            if not g.is_valid or g.is_empty:
                g = g.buffer(0)
            if g.is_empty or g.geom_type not in ('Polygon', 'MultiPolygon'):
                g = box(minx, miny, minx + w / 2, miny + h / 2)
        elif c == 'multi':
            a = box(minx - 0.1 * w, miny - 0.1 * h, minx + 0.25 * w, miny + 0.25 * h)
            b = box(maxx - 0.25 * w, maxy - 0.25 * h, maxx + 0.1 * w, maxy + 0.1 * h)
            g = MultiPolygon([a, b])
        elif c == 'diagonal_line':       # envelope covers the whole model, the geometry does not
            g = LineString([(minx - 0.1 * w, miny - 0.1 * h), (maxx + 0.1 * w, maxy + 0.1 * h)])
        elif c == 'big_triangle':
            g = Polygon([(minx - 0.2 * w, miny - 0.2 * h), (maxx + 0.2 * w, miny - 0.2 * h), (minx - 0.2 * w, maxy + 0.2 * h)])
        elif c == 'ring':                # a polygon with a hole: the middle of the model is NOT part of it
            outer = box(minx - 0.1 * w, miny - 0.1 * h, maxx + 0.1 * w, maxy + 0.1 * h)
            g = Polygon(outer.exterior.coords, [box(minx + 0.2 * w, miny + 0.2 * h, maxx - 0.2 * w, maxy - 0.2 * h).exterior.coords])
        elif c == 'multi_overlap':       # parts that overlap / several parts inside one cell
            from shapely.geometry import GeometryCollection
            p0 = polys[pick(rng, live)].representative_point()
            parts = [p0, Point(p0.x + 1e-7 * w, p0.y), p0.buffer(0.3 * max(w, h) / max(2, len(live)) ** 0.5)]
            g = pick(rng, [MultiPoint(parts[:2]), GeometryCollection(parts), MultiPolygon([parts[2], box(minx, miny, minx + 0.6 * w, miny + 0.6 * h)]).buffer(0) if False else GeometryCollection([parts[2], box(minx, miny, minx + 0.6 * w, miny + 0.6 * h)])])
        elif c == 'around_one_cell':
            # every cell that shares a vertex with one chosen cell, but NOT that cell: a selection with a one-cell gap, so
            # that an unselected cell is surrounded by selected vertices and edges
            centre = pick(rng, live)
            cv = set(_ring_vertices(polys[centre]))
            around = [n for n in live if n != centre and cv & set(_ring_vertices(polys[n]))]
            if not around:
                around = [centre]
            g = MultiPoint([polys[n].representative_point() for n in around])
        elif c == 'scattered_cells':
            some = [n for n in live if chance(rng, 0.4)] or [pick(rng, live)]
            g = MultiPoint([polys[n].representative_point() for n in some])
        elif c == 'line':
            pts = [(float(rng.uniform(minx - 0.1 * w, maxx + 0.1 * w)), float(rng.uniform(miny - 0.1 * h, maxy + 0.1 * h)))
                   for _ in range(int(rng.integers(2, 5)))]
            g = LineString(pts)
        elif c == 'point':
            g = Point(*pick(rng, verts)) if chance(rng, 0.5) else polys[pick(rng, live)].representative_point()
        elif c == 'touch_vertex':
            v = max(verts)      # lexicographically largest vertex: nothing of the model lies to its right
            g = box(v[0], v[1] - 0.01 * h, v[0] + w, v[1] + 0.01 * h) if chance(rng, 0.5) else box(v[0], v[1], v[0] + w, v[1] + h)
        elif c == 'touch_edge':
            g = box(maxx, miny - h, maxx + w, maxy + h) if chance(rng, 0.5) else box(minx - w, maxy, maxx + w, maxy + h)
        elif c == 'one_cell':
            g = polys[pick(rng, live)].representative_point().buffer(1e-6 * max(w, h))
        else:
            g = polys[pick(rng, live)]
        out.append((g, c))
    return out


def polylines(model, rng, count):
    """[(LineString, class)] simple (non self-intersecting) paths with 2..6 vertices."""
    minx, miny, maxx, maxy = hull_bounds(model)
    w, h = max(maxx - minx, 1e-6), max(maxy - miny, 1e-6)
    polys = model_polygons(model)
    live = [n for n, p in enumerate(polys) if p is not None]
    if not live:
        return []
    out = []
    classes = ['through', 'through', 'inside', 'start_outside', 'zigzag', 'miss', 'along_edge', 'two_cells']
    tries = 0
    while len(out) < count and tries < count * 20:
        tries += 1
        c = pick(rng, classes)
        if c == 'through':
            y0, y1 = (float(rng.uniform(miny, maxy)) for _ in range(2))
            pts = [(minx - 0.3 * w, y0), (maxx + 0.3 * w, y1)]
        elif c == 'inside':
            pts = [tuple(polys[pick(rng, live)].representative_point().coords[0]) for _ in range(int(rng.integers(2, 5)))]
        elif c == 'start_outside':
            pts = [(minx - 0.5 * w, float(rng.uniform(miny, maxy))), tuple(polys[pick(rng, live)].representative_point().coords[0])]
        elif c == 'zigzag':
            k = int(rng.integers(3, 7))
            xs = numpy.linspace(minx - 0.1 * w, maxx + 0.1 * w, k)
            pts = [(float(x), float(rng.uniform(miny - 0.1 * h, maxy + 0.1 * h))) for x in xs]
        elif c == 'miss':
            pts = [(maxx + w, miny), (maxx + 2 * w, maxy + h)]
        elif c == 'along_edge':
            ring = model.cells[pick(rng, live)]
            k = int(rng.integers(len(ring)))
            a, b = ring[k], ring[(k + 1) % len(ring)]
            pts = [a, b]
            if chance(rng, 0.5):
                pts = [(a[0] - (b[0] - a[0]), a[1] - (b[1] - a[1])), (b[0] + (b[0] - a[0]), b[1] + (b[1] - a[1]))]
        else:
            a, b = pick(rng, live), pick(rng, live)
            pts = [tuple(polys[a].representative_point().coords[0]), tuple(polys[b].representative_point().coords[0])]
        pts = [p for i, p in enumerate(pts) if i == 0 or p != pts[i - 1]]
        if len(pts) < 2:
            continue
        line = LineString(pts)
        if not line.is_simple or line.length == 0 or not robustly_simple(pts, 1e-6 * max(w, h)):
            continue
        out.append((line, c))
    return out


def robustly_simple(pts, eps):
    """A path whose non-adjacent legs stay at least eps apart and whose consecutive legs do not fold back on each other.
    GEOS calls a path simple even when a vertex lies within one ulp of another leg; positions along such a path
    (line.project) are ambiguous, so the oracles could not decide anything there."""
    legs = [LineString([pts[i], pts[i + 1]]) for i in range(len(pts) - 1)]
    for i in range(len(legs)):
        for j in range(i + 2, len(legs)):
            if legs[i].distance(legs[j]) <= eps:
                return False
        if i + 1 < len(legs) and legs[i].distance(Point(pts[i + 2])) <= eps:
            return False
        if i + 1 < len(legs) and legs[i + 1].distance(Point(pts[i])) <= eps:
            return False            # the next leg runs back over the start of this one (a longer fold-back)
    return True


def ring_equal(a, b, tol=0.0, same_start=True):
    """Compare two open rings of (x, y); optionally modulo rotation and direction."""
    if len(a) != len(b):
        return False

    def close(p, q):
        if tol == 0.0:
            return p[0] == q[0] and p[1] == q[1]
        return abs(p[0] - q[0]) <= tol and abs(p[1] - q[1]) <= tol

    if same_start:
        return all(close(p, q) for p, q in zip(a, b))
    n = len(a)
    for seq in (list(b), list(reversed(b))):
        for r in range(n):
            if all(close(a[k], seq[(k + r) % n]) for k in range(n)):
                return True
    return False


def open_ring(polygon):
    coords = list(polygon.exterior.coords)
    return [(float(x), float(y)) for x, y in coords[:-1]]


def polygon_matches(polygon, ring, tol=0.0, same_start=True):
    """Does the shapely polygon have exactly the model's vertex ring as its exterior (and no interiors)?"""
    if polygon is None or len(polygon.interiors) != 0:
        return False
    ring = list(ring)
    if len(ring) > 1 and ring[0] == ring[-1]:
        ring = ring[:-1]        # model ring happens to be closed already (collapsed synthesised corner)
    return ring_equal(open_ring(polygon), ring, tol=tol, same_start=same_start)
