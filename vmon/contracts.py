"""In-situ post-conditions on the pure helpers the properties are anchored in.

Attached from the harness by rebinding module attributes (probes.attach_post); every post-condition
compares with a slow, obviously-correct reference written here, records into the Obs and never raises.
A post-condition that fires is reported under the property whose workload was running, with
mech='contract:<helper>'.
"""
import itertools
import math
import re

import numpy

from .common import nan_equal
from .probes import attach_post

# ---------------------------------------------------------------------------
# references
# ---------------------------------------------------------------------------


def ref_blur(arr, size):
    arr = numpy.asarray(arr)
    out = numpy.zeros(arr.shape, dtype=bool)
    for idx in itertools.product(*(range(s) for s in arr.shape)):
        hit = False
        for jdx in itertools.product(*(range(s) for s in arr.shape)):
            if arr[jdx] and max((abs(a - b) for a, b in zip(idx, jdx)), default=0) <= size:
                hit = True
                break
        out[idx] = hit
    return out


def ref_smear(arr, pad_axes):
    arr = numpy.asarray(arr)
    shape = tuple(s + (1 if p else 0) for s, p in zip(arr.shape, pad_axes))
    out = numpy.zeros(shape, dtype=bool)
    offsets = list(itertools.product(*([0, 1] if p else [0] for p in pad_axes)))
    for idx in itertools.product(*(range(s) for s in shape)):
        for off in offsets:
            src = tuple(i - o for i, o in zip(idx, off))
            if all(0 <= s < n for s, n in zip(src, arr.shape)) and arr[src]:
                out[idx] = True
                break
    return out


def ref_ravel(data_array, dimensions):
    dims = list(data_array.dims)
    others = [d for d in dims if d not in dimensions]
    order = [dims.index(d) for d in others + list(dimensions)]
    moved = numpy.transpose(numpy.asarray(data_array.values), order)
    lead = moved.shape[:len(others)]
    return tuple(others), moved.reshape(lead + (-1,))


TIME_RE = re.compile(
    r'^(?P<period>[A-Za-z]+) since (?P<y>\d{4})-(?P<mo>\d\d)-(?P<d>\d\d) (?P<h>\d\d):(?P<mi>\d\d):(?P<s>\d\d) '
    r'(?P<sign>[+-])(?P<oh>\d{1,2})(?::(?P<om>\d\d))?$')

GENERAL_TIME_RE = re.compile(
    r'^\s*(?P<period>[A-Za-z]+)\s+since\s+(?P<y>\d{1,4})-(?P<mo>\d{1,2})-(?P<d>\d{1,2})'
    r'(?:[T ]\s*(?P<h>\d{1,2}):(?P<mi>\d{1,2})(?::(?P<s>\d{1,2})(?:\.(?P<frac>\d+))?)?)?'
    r'\s*(?:(?P<z>Z|UTC)|(?P<sign>[+-])(?P<oh>\d{1,2})(?::?(?P<om>\d\d))?)?\s*$')


def days_from_civil(y, m, d):
    """Proleptic Gregorian day number (Howard Hinnant's algorithm) - no datetime module involved."""
    y -= m <= 2
    era = (y if y >= 0 else y - 399) // 400
    yoe = y - era * 400
    doy = (153 * (m + (-3 if m > 2 else 9)) + 2) // 5 + d - 1
    doe = yoe * 365 + yoe // 4 - yoe // 100 + doy
    return era * 146097 + doe - 719468


def parse_time_units(text, strict=False):
    """-> (period, utc_seconds_since_1970 of the reference instant) or None when not understood."""
    m = (TIME_RE if strict else GENERAL_TIME_RE).match(text)
    if m is None:
        return None
    g = m.groupdict()
    if g.get('frac') and int(g['frac']) != 0:
        return None
    secs = days_from_civil(int(g['y']), int(g['mo']), int(g['d'])) * 86400
    secs += int(g['h'] or 0) * 3600 + int(g['mi'] or 0) * 60 + int(g['s'] or 0)
    if g.get('sign'):
        off = int(g['oh']) * 3600 + int(g['om'] or 0) * 60
        if g['sign'] == '-':
            off = -off
        secs -= off
    return g['period'].lower(), secs


# ---------------------------------------------------------------------------
# attachments
# ---------------------------------------------------------------------------

def attach_all(obs, only=None):
    import emsarray.masking as masking
    import emsarray.utils as utils
    import emsarray.conventions.arakawa_c as arakawa_c
    import emsarray.conventions.ugrid as ugrid
    import emsarray.operations.depth as depth

    def want(name):
        return only is None or name in only

    # -- masking.blur_mask -------------------------------------------------------
    def post_blur(result, arr, size=1):
        if numpy.asarray(arr).size > 400:
            return
        ref = ref_blur(arr, size)
        obs.expect(result.shape == ref.shape and bool(numpy.array_equal(numpy.asarray(result, dtype=bool), ref)),
                   'blur_mask != Chebyshev dilation',
                   lambda: {'arr': numpy.asarray(arr).astype(int), 'size': size, 'got': numpy.asarray(result).astype(int), 'want': ref.astype(int)},
                   mech='contract:blur_mask')
    if want('blur_mask'):
        attach_post(masking, 'blur_mask', post_blur, obs, 'blur_mask')

    # -- masking.smear_mask ------------------------------------------------------
    def post_smear(result, arr, pad_axes):
        if numpy.asarray(arr).size > 400:
            return
        ref = ref_smear(arr, pad_axes)
        obs.expect(result.shape == ref.shape and bool(numpy.array_equal(numpy.asarray(result, dtype=bool), ref)),
                   'smear_mask != OR over neighbouring elements',
                   lambda: {'arr': numpy.asarray(arr).astype(int), 'pad_axes': list(pad_axes), 'got': numpy.asarray(result).astype(int), 'want': ref.astype(int)},
                   mech='contract:smear_mask')
    if want('smear_mask'):
        attach_post(masking, 'smear_mask', post_smear, obs, 'smear_mask')

    # -- arakawa_c.c_mask_from_centres -------------------------------------------
    def post_cmask(result, face_mask, dimensions, coords=None):
        fm = numpy.asarray(face_mask, dtype=bool)
        if fm.size > 400 or fm.ndim != 2:
            return
        nj, ni = fm.shape

        def f(j, i):
            return 0 <= j < nj and 0 <= i < ni and bool(fm[j, i])
        left = numpy.array([[f(j, i - 1) or f(j, i) for i in range(ni + 1)] for j in range(nj)], dtype=bool).reshape(nj, ni + 1)
        back = numpy.array([[f(j - 1, i) or f(j, i) for i in range(ni)] for j in range(nj + 1)], dtype=bool).reshape(nj + 1, ni)
        node = numpy.array([[f(j - 1, i - 1) or f(j - 1, i) or f(j, i - 1) or f(j, i) for i in range(ni + 1)] for j in range(nj + 1)], dtype=bool)
        for name, ref in (('face_mask', fm), ('left_mask', left), ('back_mask', back), ('node_mask', node)):
            got = numpy.asarray(result[name].values, dtype=bool)
            obs.expect(got.shape == ref.shape and bool(numpy.array_equal(got, ref)),
                       'c_mask_from_centres: %s is not "belongs to >= 1 marked face"' % name,
                       lambda: {'face': fm.astype(int), 'got': got.astype(int), 'want': ref.astype(int)},
                       mech='contract:c_mask_from_centres')
    if want('c_mask_from_centres'):
        attach_post(arakawa_c, 'c_mask_from_centres', post_cmask, obs, 'c_mask_from_centres')

    # -- utils.ravel_dimensions ----------------------------------------------------
    def post_ravel(result, data_array, dimensions, linear_dimension=None):
        others, ref = ref_ravel(data_array, list(dimensions))
        ok_dims = tuple(result.dims[:-1]) == others and (linear_dimension is None or result.dims[-1] == linear_dimension)
        if linear_dimension is None:
            ok_dims = ok_dims and result.dims[-1] not in data_array.dims
        obs.expect(ok_dims and nan_equal(result.values, ref), 'ravel_dimensions != moveaxis+reshape reference',
                   lambda: {'in_dims': data_array.dims, 'dimensions': list(dimensions), 'out_dims': result.dims,
                            'got': result.values, 'want': ref}, mech='contract:ravel_dimensions')
    if want('ravel_dimensions'):
        attach_post(utils, 'ravel_dimensions', post_ravel, obs, 'ravel_dimensions')

    # -- utils.wind_dimension --------------------------------------------------------
    def post_wind(result, data_array, dimensions, sizes, *, linear_dimension='index'):
        pos = list(data_array.dims).index(linear_dimension)
        dims = tuple(data_array.dims[:pos]) + tuple(dimensions) + tuple(data_array.dims[pos + 1:])
        shape = tuple(data_array.shape[:pos]) + tuple(int(s) for s in sizes) + tuple(data_array.shape[pos + 1:])
        ref = numpy.asarray(data_array.values).reshape(shape)
        obs.expect(tuple(result.dims) == dims and nan_equal(result.values, ref), 'wind_dimension != splice+reshape reference',
                   lambda: {'in_dims': data_array.dims, 'dimensions': list(dimensions), 'sizes': list(sizes),
                            'out_dims': result.dims, 'want_dims': dims}, mech='contract:wind_dimension')
    if want('wind_dimension'):
        attach_post(utils, 'wind_dimension', post_wind, obs, 'wind_dimension')

    # -- utils.make_polygons_with_holes ------------------------------------------------
    def post_polys(result, points, *, out=None):
        pts = numpy.asarray(points)
        if pts.shape[0] > 2000:
            return
        bad = None
        for n in range(pts.shape[0]):
            complete = bool(numpy.isfinite(pts[n]).all())
            poly = result[n]
            if not complete:
                if poly is not None and out is None:
                    bad = (n, 'polygon for incomplete row')
                    break
                continue
            if poly is None:
                bad = (n, 'no polygon for complete row')
                break
            coords = numpy.asarray(poly.exterior.coords)
            already_closed = bool(numpy.array_equal(pts[n][0], pts[n][-1]))   # GEOS adds no closing point then
            if already_closed:
                same = coords.shape[0] == pts.shape[1] and numpy.array_equal(coords, pts[n])
            else:
                same = coords.shape[0] == pts.shape[1] + 1 and numpy.array_equal(coords[:-1], pts[n])
            if not same:
                bad = (n, 'vertices differ from the row')
                break
        obs.expect(bad is None, 'make_polygons_with_holes: row/polygon mismatch', lambda: {'row': bad},
                   mech='contract:make_polygons_with_holes')
    if want('make_polygons_with_holes'):
        attach_post(utils, 'make_polygons_with_holes', post_polys, obs, 'make_polygons_with_holes')

    # -- utils.format_time_units_for_ems --------------------------------------------------
    def post_time(result, units, calendar='proleptic_gregorian'):
        src = parse_time_units(units)
        if src is None or calendar not in (None, 'proleptic_gregorian', 'gregorian', 'standard'):
            obs.cls('contract:time-units-not-understood-by-harness-parser')
            return
        dst = parse_time_units(result, strict=True)
        obs.expect(dst is not None, 'format_time_units_for_ems: output not of the EMS form',
                   lambda: {'units': units, 'result': result}, mech='contract:format_time_units')
        if dst is not None:
            obs.expect(dst == src, 'format_time_units_for_ems: reference instant or period changed',
                       lambda: {'units': units, 'result': result, 'src': src, 'dst': dst}, mech='contract:format_time_units')
    if want('format_time_units_for_ems'):
        attach_post(utils, 'format_time_units_for_ems', post_time, obs, 'format_time_units_for_ems')

    # -- ugrid.buffer_faces ------------------------------------------------------------------
    def post_buffer(result, face_indexes, topology):
        face_node = topology.face_node_array
        if face_node.shape[0] > 3000:
            return
        rows = [set(int(v) for v in row.compressed()) for row in face_node]
        start = set(int(v) for v in numpy.asarray(face_indexes).tolist())
        nodes = set()
        for f in start:
            nodes |= rows[f]
        want_set = {f for f, r in enumerate(rows) if f in start or (r & nodes)}
        got = [int(v) for v in numpy.asarray(result).tolist()]
        obs.expect(set(got) == want_set and len(got) == len(set(got)), 'buffer_faces != faces sharing a node with the set',
                   lambda: {'start': sorted(start), 'got': got, 'want': sorted(want_set)}, mech='contract:buffer_faces')
    if want('buffer_faces'):
        attach_post(ugrid, 'buffer_faces', post_buffer, obs, 'buffer_faces')

    # -- ugrid.mask_from_face_indexes ------------------------------------------------------------
    def post_maskfaces(result, face_indexes, topology):
        fi = [int(v) for v in numpy.asarray(face_indexes).tolist()]
        if topology.face_count > 3000:
            return
        face_node = topology.face_node_array
        kept_nodes = sorted({int(v) for f in fi for v in face_node[f].compressed()})
        checks = [('new_face_index', topology.face_count, fi), ('new_node_index', topology.node_count, kept_nodes)]
        if topology.has_edge_dimension:
            face_edge = topology.face_edge_array
            kept_edges = sorted({int(v) for f in fi for v in face_edge[f].compressed()})
            checks.append(('new_edge_index', topology.edge_count, kept_edges))
        else:
            obs.expect('new_edge_index' not in result.data_vars, 'mask has edges although the mesh has no edge dimension',
                       mech='contract:mask_from_face_indexes')
        input_sorted = fi == sorted(fi)
        for name, count, kept in checks:
            if name not in result.data_vars:
                obs.fail('mask_from_face_indexes: %s missing' % name, mech='contract:mask_from_face_indexes')
                continue
            vals = numpy.asarray(result[name].values, dtype=float)
            ok = vals.shape == (count,)
            if ok:
                marked = [i for i in range(count) if not math.isnan(vals[i])]
                ok = sorted(marked) == sorted(set(kept))
                if ok:
                    new = [int(vals[i]) for i in sorted(marked)]
                    if name != 'new_face_index' or input_sorted:
                        ok = new == list(range(len(marked)))        # rank in ascending old index
                    else:
                        ok = sorted(new) == list(range(len(marked)))  # unsorted request: at least a bijection
            obs.expect(ok, 'mask_from_face_indexes: %s is not the rank of kept elements in original order' % name,
                       lambda: {'kept': kept, 'got': vals}, mech='contract:mask_from_face_indexes')
    if want('mask_from_face_indexes'):
        attach_post(ugrid, 'mask_from_face_indexes', post_maskfaces, obs, 'mask_from_face_indexes')

    # -- depth._find_ocean_floor_indexes -------------------------------------------------------------
    def post_floor(result, data_array, depth_dimension):
        dims = list(data_array.dims)
        if depth_dimension not in dims or data_array.size > 20000:
            return
        axis = dims.index(depth_dimension)
        vals = numpy.moveaxis(numpy.asarray(data_array.values, dtype=float), axis, -1)
        ref = numpy.zeros(vals.shape[:-1], dtype=int)
        for idx in numpy.ndindex(*vals.shape[:-1]):
            last = 0
            for k in range(vals.shape[-1]):
                if not math.isnan(vals[idx + (k,)]):
                    last = k
            ref[idx] = last
        other = tuple(d for d in dims if d != depth_dimension)
        got = numpy.asarray(result.transpose(*other).values) if other else numpy.asarray(result.values)
        obs.expect(got.shape == ref.shape and bool(numpy.array_equal(got, ref)),
                   '_find_ocean_floor_indexes != index of the last valid layer',
                   lambda: {'got': got, 'want': ref}, mech='contract:_find_ocean_floor_indexes')
    if want('_find_ocean_floor_indexes'):
        attach_post(depth, '_find_ocean_floor_indexes', post_floor, obs, '_find_ocean_floor_indexes')
