"""Abstract dataset model: what every oracle reads instead of emsarray.

A Model knows, in plain Python / numpy:
  * the grid kinds with their dimensions (dataset order) and shapes,
  * for the default (face) kind, the vertex ring and centre of every cell in row-major order (None = hole),
  * every variable as a *canonical* array  canon[extra dims..., n]  of self-identifying values
    (globally unique numbers; NaN marks a missing value), together with the dimension order used in the file.
encode() lays these out as an xarray.Dataset.  Oracles never call emsarray.
"""
import itertools

import numpy
import xarray


DATETIME_BASE = numpy.datetime64('2000-01-01T00:00:00', 'ns')


def datetime_to_ids(values):
    """Inverse of Var.typed for datetime variables: datetime64 array -> float ids (NaT -> NaN)."""
    values = numpy.asarray(values).astype('datetime64[ns]')
    out = (values - DATETIME_BASE) / numpy.timedelta64(1, 's')
    return numpy.where(numpy.isnat(values), numpy.nan, out.astype('float64'))


def declare_first(ds, dims):
    """Rebuild the dataset so that a variable whose first dimension is one of `dims` is declared first: Dataset.sizes /
    Dataset.dims then list that dimension (x / i) BEFORE its partner (y / j) although the convention's order is (y, x)."""
    names = list(ds.variables)
    first = [n for n in names if ds.variables[n].dims and ds.variables[n].dims[0] in dims]
    if not first:
        return ds
    out = xarray.Dataset(attrs=dict(ds.attrs))
    for n in first + [n for n in names if n not in first]:
        if n in ds.coords:
            out = out.assign_coords({n: ds.variables[n]})
        else:
            out[n] = ds.variables[n]
    out.encoding = dict(ds.encoding)
    return out


class Kind:
    def __init__(self, name, dims, shape):
        self.name = name
        self.dims = tuple(dims)
        self.shape = tuple(int(s) for s in shape)
        self.size = int(numpy.prod(self.shape)) if self.shape else 1

    def multi(self, n):
        """row-major decomposition of linear index n (own integer arithmetic)."""
        out = []
        for s in reversed(self.shape):
            out.append(n % s)
            n //= s
        return tuple(reversed(out))

    def linear(self, multi):
        n = 0
        for m, s in zip(multi, self.shape):
            n = n * s + m
        return n


class Var:
    def __init__(self, name, kind, extra, dims, canon, dtype='float64', fill=None, attrs=None):
        self.name = name
        self.kind = kind            # kind name or None (not on any grid)
        self.extra = list(extra)    # [(dim, size)] in the variable's own relative order
        self.dims = tuple(dims)     # full dataset order
        self.canon = canon          # float64, shape = extra sizes + (N,)   (N absent if kind is None)
        self.dtype = dtype
        self.fill = fill            # None | ('_FillValue', v) | ('missing_value', v)
        self.attrs = dict(attrs or {})

    @property
    def extra_dims(self):
        return tuple(d for d, _ in self.extra)

    def layout(self, model, canon=None):
        """Dataset-layout values (float64 with NaN for missing)."""
        canon = self.canon if canon is None else canon
        if self.kind is None:
            src_dims = self.extra_dims
            arr = canon
        else:
            k = model.kinds[self.kind]
            src_dims = self.extra_dims + k.dims
            arr = canon.reshape(tuple(s for _, s in self.extra) + k.shape)
        order = [src_dims.index(d) for d in self.dims]
        return numpy.transpose(arr, order)

    def typed(self, arr):
        """Values as stored in the file: NaN -> fill for integer variables, cast to the variable's dtype."""
        if self.dtype.startswith('datetime64'):
            out = numpy.full(arr.shape, numpy.datetime64('NaT', 'ns'), dtype='datetime64[ns]')
            ok = ~numpy.isnan(arr)
            out[ok] = DATETIME_BASE + arr[ok].astype('int64') * numpy.timedelta64(1, 's')
            return out
        if self.dtype.startswith('float'):
            return arr.astype(self.dtype)
        out = numpy.where(numpy.isnan(arr), self.fill[1] if self.fill else 0, arr)
        return out.astype(self.dtype)

    def expected(self, arr, source='memory'):
        """Values an accessor should hand back for canonical values `arr`: as stored (memory), or as xarray decodes
        them after a netCDF round trip (an integer variable with a declared fill value comes back as float + NaN)."""
        if source == 'disk' and not self.dtype.startswith('float') and self.fill is not None:
            return arr.astype('float64')
        return self.typed(arr)

    def data(self, model):
        return self.typed(self.layout(model))

    def data_array(self, model):
        attrs = dict(self.attrs)
        if self.fill is not None:
            if len(self.fill) > 2 and self.fill[2] == 'pyint':
                # the way people write it by hand: attrs={'missing_value': -99999}; nothing makes it the variable's type
                attrs[self.fill[0]] = int(self.fill[1])
            else:
                attrs[self.fill[0]] = numpy.dtype(self.dtype).type(self.fill[1])
        return xarray.DataArray(self.data(model), dims=self.dims, attrs=attrs)


class Model:
    convention = None
    expected_class = None

    def __init__(self):
        self.kinds = {}
        self.default_kind = 'face'
        self.cells = []
        self.centres = []
        self.invalid_cells = []
        self.skip_cells = set()    # cells about which the oracle asserts nothing (degenerate derived geometry)
        self.variables = {}
        self.encoding = {}
        self.geometry_names = []
        self.time = None        # dict(name, dim, size, units, calendar, values(datetime64))
        self.depths = []        # list of dict(name, dim, values, positive, bounds)
        self.attrs = {}
        self._next_id = 1000.0

    # ---- ids -------------------------------------------------------------------
    def fresh_ids(self, shape):
        size = int(numpy.prod(shape)) if len(shape) else 1
        ids = self._next_id + numpy.arange(size, dtype=numpy.float64)
        self._next_id += size + 7
        return ids.reshape(shape)

    # ---- index helpers ---------------------------------------------------------
    def native(self, kind, n):
        raise NotImplementedError

    def kind_token(self, kind):
        """The object emsarray expects as grid_kind= for this kind (an enum member)."""
        raise NotImplementedError

    @property
    def size(self):
        return self.kinds[self.default_kind].size

    def has_geometry(self, n):
        return self.cells[n] is not None

    # ---- encoding ----------------------------------------------------------------
    def geometry_dataset(self):
        """xarray.Dataset with geometry variables only (coords and/or data_vars)."""
        raise NotImplementedError

    def encode(self):
        ds = self.geometry_dataset()
        extra = {}
        if self.time is not None:
            t = self.time
            da = xarray.DataArray(t['values'], dims=[t['dim']], attrs=dict(t.get('attrs', {})))
            da.encoding.update({'units': t['units'], 'calendar': t['calendar']})
            if t.get('dtype'):
                da.encoding['dtype'] = numpy.dtype(t['dtype'])
            extra[t['name']] = da
            if t.get('bounds'):
                half = numpy.timedelta64(1800, 's')
                values = numpy.asarray(t['values'], dtype='datetime64[ns]')
                da.attrs['bounds'] = t['name'] + '_bnds'
                time_bounds = xarray.DataArray(numpy.stack([values - half, values + half], axis=1), dims=[t['dim'], 'nv2'])
        coords = {}
        for d in self.depths:
            attrs = dict(d.get('attrs', {}))
            if d.get('positive') is not None:
                attrs['positive'] = d['positive']
            if d.get('bounds') is not None:
                attrs['bounds'] = d['name'] + '_bounds'
                extra[d['name'] + '_bounds'] = xarray.DataArray(d['bounds'], dims=[d['dim'], 'bnd2'])
            coords[d['name']] = xarray.DataArray(numpy.asarray(d['values'], dtype=float), dims=[d['dim']], attrs=attrs)
        data_vars = {name: v.data_array(self) for name, v in self.variables.items()}
        order = self.encoding.get('variable_order')
        if order is not None:
            data_vars = {name: data_vars[name] for name in order}
        if self.time is not None and self.time.get('bounds') == 'first':
            data_vars = {self.time['name'] + '_bnds': time_bounds, **data_vars}      # listed before the coordinate
        elif self.time is not None and self.time.get('bounds') == 'last':
            extra[self.time['name'] + '_bnds'] = time_bounds
        ds = ds.assign(data_vars)
        if extra:
            time_name = self.time['name'] if self.time is not None else None
            tcoord = {k: v for k, v in extra.items() if k == time_name}
            other = {k: v for k, v in extra.items() if k != time_name}
            ds = ds.assign_coords(tcoord).assign(other)
        if coords:
            ds = ds.assign_coords(coords)
        ds.attrs.update(self.attrs)
        if self.encoding.get('x_first'):
            ds = declare_first(ds, {k.dims[-1] for k in self.kinds.values() if len(k.dims) == 2})
        return ds

    def materialise(self, rng, workdir, p_disk=0.25):
        """-> (dataset, 'memory'|'disk').  With probability p_disk the dataset is written with plain xarray to netCDF
        and reopened (lazily loaded, CF-decoded, data variables ordered before coordinates, realistic encodings)."""
        ds = self.encode()
        if workdir is None or rng.random() >= p_disk:
            return ds, 'memory'
        import os
        import tempfile
        fd, path = tempfile.mkstemp(suffix='.nc', dir=workdir)
        os.close(fd)
        ds.to_netcdf(path)
        if rng.random() < 0.3:
            return xarray.open_dataset(path, chunks={}), 'disk'      # dask-backed (lazy, chunked) variables
        return xarray.open_dataset(path), 'disk'

    # ---- description ---------------------------------------------------------------
    def describe(self):
        return {
            'convention': self.convention,
            'kinds': {k: list(v.shape) for k, v in self.kinds.items()},
            'holes': sum(1 for c in self.cells if c is None),
            'encoding': {k: v for k, v in self.encoding.items() if k != 'variable_order'},
            'variables': {n: list(v.dims) for n, v in self.variables.items()},
            'time_bounds': self.time.get('bounds') if self.time is not None else None,
        }


# ---------------------------------------------------------------------------
# Variable zoo
# ---------------------------------------------------------------------------

DTYPES = [
    ('float64', None), ('float64', None), ('float32', None),
    ('int32', None), ('int16', ('_FillValue', -999)), ('int32', ('missing_value', -99999)),
    ('int32', ('_FillValue', 0)), ('int32', ('missing_value', -99999, 'pyint')),
    ('uint32', None),
]
DTYPES_WITH_DATETIME = DTYPES + [('datetime64[ns]', None)]


def add_variables(model, rng, *, per_kind=(1, 2), extras=(), max_extra=3, dtypes=DTYPES,
                  nongrid=1, missing=0.15, kinds=None, permute=True, name_prefix='v'):
    """Populate model.variables with self-identifying variables on every grid kind.

    extras: list of (dim name, size) available as extra (non-grid) dimensions.
    """
    kinds = list(kinds if kinds is not None else model.kinds)
    count = 0
    for kind in kinds:
        k = model.kinds[kind]
        nvars = int(rng.integers(per_kind[0], per_kind[1] + 1))
        for _ in range(nvars):
            nextra = int(rng.integers(0, min(max_extra, len(extras)) + 1))
            idx = sorted(rng.choice(len(extras), size=nextra, replace=False).tolist()) if nextra else []
            chosen = [extras[i] for i in idx]
            if permute and len(chosen) > 1:
                chosen = [chosen[i] for i in rng.permutation(len(chosen))]
            dims = list(d for d, _ in chosen) + list(k.dims)
            if permute:
                dims = [dims[i] for i in rng.permutation(len(dims))]
            # `extra` must be in the variable's own relative order of non-grid dims
            extra_in_order = [(d, dict(chosen)[d]) for d in dims if d in dict(chosen)]
            dtype, fill = dtypes[int(rng.integers(len(dtypes)))]
            shape = tuple(s for _, s in extra_in_order) + (k.size,)
            canon = model.fresh_ids(shape)
            if dtype == 'float32' and canon.max() >= 2 ** 24:
                dtype = 'float64'
            if dtype == 'int16' and canon.max() >= 32000:
                dtype = 'int32'
            if dtype == 'uint16' and canon.max() >= 65000:
                dtype = 'uint32'
            can_miss = dtype.startswith('float') or dtype.startswith('datetime64') or fill is not None
            if can_miss and missing > 0:
                # missing values are static per cell for half the variables, scattered for the rest
                if rng.random() < 0.5:
                    dry = rng.random(k.size) < missing
                    canon = numpy.where(dry, numpy.nan, canon)
                else:
                    canon = numpy.where(rng.random(canon.shape) < missing, numpy.nan, canon)
            name = '%s%d_%s' % (name_prefix, count, kind)
            count += 1
            model.variables[name] = Var(name, kind, extra_in_order, dims, canon, dtype, fill,
                                        attrs={'long_name': 'variable %s' % name})
    for i in range(nongrid):
        if not extras:
            break
        nextra = int(rng.integers(1, min(2, len(extras)) + 1))
        idx = rng.choice(len(extras), size=nextra, replace=False).tolist()
        chosen = [extras[j] for j in idx]
        canon = model.fresh_ids(tuple(s for _, s in chosen))
        name = '%s%d_nogrid' % (name_prefix, count)
        count += 1
        model.variables[name] = Var(name, None, chosen, [d for d, _ in chosen], canon, 'float64', None)
    return model


def all_permutations(seq, limit=None):
    perms = list(itertools.permutations(seq))
    return perms if limit is None else perms[:limit]


def time_axis(rng, name='time', dim=None, size=None, units=None, calendar='proleptic_gregorian'):
    size = int(size if size is not None else rng.integers(1, 4))
    units = units or 'days since 1990-01-01 00:00:00 +10:00'
    start = numpy.datetime64('2020-01-01T00:00:00', 'ns') + numpy.timedelta64(int(rng.integers(0, 2000)), 'D')
    values = start + numpy.arange(size) * numpy.timedelta64(6, 'h')
    return {'name': name, 'dim': dim or name, 'size': size, 'units': units, 'calendar': calendar,
            'values': values.astype('datetime64[ns]')}
