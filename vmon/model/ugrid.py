"""Abstract UGRID 2-D mesh model and its many encodings."""
import itertools

import numpy
import xarray

from ..rng import chance, pick
from .base import Kind, Model
from .grids import lattice

OPTIONAL_TABLES = ('edge_node', 'face_edge', 'edge_face', 'face_face')


class Mesh:
    """Pure-python mesh tables derived from the face->nodes lists only."""

    def __init__(self, faces, x, y):
        self.faces = [list(f) for f in faces]
        self.x = numpy.asarray(x, dtype=float)
        self.y = numpy.asarray(y, dtype=float)
        self.nnode = len(self.x)
        self.nface = len(self.faces)
        self.max_nodes = max(len(f) for f in self.faces)
        # canonical edge numbering: first appearance scanning faces, consecutive node pairs
        self.edge_index = {}
        self.edges = []
        for f in self.faces:
            for a, b in self.pairs(f):
                key = frozenset((a, b))
                if key not in self.edge_index:
                    self.edge_index[key] = len(self.edges)
                    self.edges.append((a, b))
        self.nedge = len(self.edges)
        self.face_edges = [[self.edge_index[frozenset(p)] for p in self.pairs(f)] for f in self.faces]
        self.edge_faces = [[] for _ in self.edges]
        for fi, fe in enumerate(self.face_edges):
            for e in fe:
                self.edge_faces[e].append(fi)
        self.face_faces = [set() for _ in self.faces]
        for fs in self.edge_faces:
            if len(fs) == 2:
                self.face_faces[fs[0]].add(fs[1])
                self.face_faces[fs[1]].add(fs[0])

    @staticmethod
    def pairs(face):
        return [(face[c], face[(c + 1) % len(face)]) for c in range(len(face))]

    def renumber_edges(self, perm):
        """Return tables under the edge numbering new = perm[old]."""
        inv = [0] * self.nedge
        for old, new in enumerate(perm):
            inv[new] = old
        edges = [self.edges[inv[new]] for new in range(self.nedge)]
        face_edges = [[perm[e] for e in fe] for fe in self.face_edges]
        edge_faces = [self.edge_faces[inv[new]] for new in range(self.nedge)]
        return edges, face_edges, edge_faces

    def ring(self, f):
        return [(float(self.x[n]), float(self.y[n])) for n in self.faces[f]]


def _boundary_ring(cells):
    """cells: list of node rings (same winding) forming an edge-connected patch -> outer ring or None."""
    count = {}
    for c in cells:
        for a, b in Mesh.pairs(c):
            count[(a, b)] = count.get((a, b), 0) + 1
    boundary = [(a, b) for (a, b) in count if (b, a) not in count]
    nxt = {}
    for a, b in boundary:
        if a in nxt:
            return None     # node visited twice: pinched patch
        nxt[a] = b
    if not boundary:
        return None
    start = boundary[0][0]
    ring = [start]
    cur = nxt[start]
    while cur != start:
        ring.append(cur)
        if cur not in nxt or len(ring) > len(boundary):
            return None
        cur = nxt[cur]
    if len(ring) != len(boundary):
        return None
    used = {n for c in cells for n in c}
    if used - set(ring):
        return None         # interior node would be orphaned
    return ring


def random_mesh(rng, nj=None, ni=None, *, maxn=4, split=0.3, merge=0.35, jitter=0.12, winding=None):
    nj = int(nj if nj is not None else rng.integers(1, maxn + 1))
    ni = int(ni if ni is not None else rng.integers(1, maxn + 1))
    gx, gy = lattice(rng, nj, ni, kind=pick(rng, ['affine', 'plain']), jitter=jitter)
    node = lambda j, i: j * (ni + 1) + i   # noqa: E731
    quads = {}
    for j in range(nj):
        for i in range(ni):
            quads[(j, i)] = [node(j, i), node(j, i + 1), node(j + 1, i + 1), node(j + 1, i)]
    # group quads into merged patches (2 in a row, or 3 in an L): hexagons and concave octagons
    assigned = {}
    patches = []
    order = list(quads)
    order = [order[k] for k in rng.permutation(len(order))]
    for (j, i) in order:
        if (j, i) in assigned or not chance(rng, merge):
            continue
        shape = pick(rng, ['h2', 'v2', 'L', 'L2'])
        if shape == 'h2':
            members = [(j, i), (j, i + 1)]
        elif shape == 'v2':
            members = [(j, i), (j + 1, i)]
        elif shape == 'L':
            members = [(j, i), (j + 1, i), (j + 1, i + 1)]
        else:
            members = [(j, i), (j, i + 1), (j + 1, i)]
        if all(mm in quads and mm not in assigned for mm in members):
            ring = _boundary_ring([quads[mm] for mm in members])
            if ring is not None and len(ring) <= 8:
                for mm in members:
                    assigned[mm] = len(patches)
                patches.append(ring)
    faces = []
    emitted = set()
    for j in range(nj):
        for i in range(ni):
            if (j, i) in assigned:
                p = assigned[(j, i)]
                if p not in emitted:
                    emitted.add(p)
                    faces.append(patches[p])
            elif chance(rng, split):
                q = quads[(j, i)]
                if chance(rng, 0.5):
                    faces.append([q[0], q[1], q[2]])
                    faces.append([q[0], q[2], q[3]])
                else:
                    faces.append([q[0], q[1], q[3]])
                    faces.append([q[1], q[2], q[3]])
            else:
                faces.append(quads[(j, i)])
    # pentagons: merge a triangle with a neighbouring quad where possible
    if chance(rng, 0.5):
        faces = _merge_some_pentagons(rng, faces)
    # winding and start node
    winding = winding or pick(rng, ['ccw', 'cw'])
    out = []
    for f in faces:
        if winding == 'cw':
            f = f[::-1]
        r = int(rng.integers(len(f)))
        out.append(f[r:] + f[:r])
    faces = [out[k] for k in rng.permutation(len(out))] if chance(rng, 0.5) else out
    # compact nodes, in a shuffled node order; sometimes one or two ORPHAN nodes that belong to no face (UGRID does not
    # forbid them: a station, the end of a 1-D network in a mixed file) - inside or outside the hull of the faces
    used = sorted({n for f in faces for n in f})
    fx, fy = gx.ravel(), gy.ravel()
    norphan = int(rng.integers(1, 3)) if ORPHAN_POLICY['on'] and chance(rng, 0.15) else 0
    total = len(used) + norphan
    perm = rng.permutation(total)
    if norphan and chance(rng, 0.4):
        # number 0 is where padding (`filled(0)`) and start-index slips end up: often let the orphan be node 0
        k0 = int(numpy.flatnonzero(perm == 0)[0])
        perm[k0], perm[len(used)] = perm[len(used)], perm[k0]
    remap = {old: int(perm[k]) for k, old in enumerate(used)}
    x = numpy.empty(total)
    y = numpy.empty(total)
    for old, new in remap.items():
        x[new], y[new] = fx[old], fy[old]
    ux, uy = fx[used], fy[used]
    w, h = max(float(ux.max() - ux.min()), 1e-6), max(float(uy.max() - uy.min()), 1e-6)
    for k in range(norphan):
        new = int(perm[len(used) + k])
        if chance(rng, 0.6):
            x[new] = float(ux.max() + w * rng.uniform(0.2, 1.0)) if chance(rng, 0.5) else float(ux.min() - w * rng.uniform(0.2, 1.0))
            y[new] = float(uy.max() + h * rng.uniform(0.2, 1.0)) if chance(rng, 0.5) else float(uy.min() - h * rng.uniform(0.2, 1.0))
        else:
            x[new] = float(rng.uniform(ux.min(), ux.max()))
            y[new] = float(rng.uniform(uy.min(), uy.max()))
    faces = [[remap[n] for n in f] for f in faces]
    mesh = Mesh(faces, x, y)
    mesh.orphans = sorted(int(perm[len(used) + k]) for k in range(norphan))
    return mesh, winding


import os as _os
ORPHAN_POLICY = {'on': _os.environ.get('VMON_ORPHAN_NODES', '1') == '1'}


def set_orphan_nodes(on):
    ORPHAN_POLICY['on'] = bool(on)
    _os.environ['VMON_ORPHAN_NODES'] = '1' if on else '0'


def hanging_mesh(rng, maxn=4, midside=False):
    """A non-conforming mesh on an exact integer lattice: some 2 x 1 rectangles are described by their four corner
    nodes only, while the neighbours above / below still use the node in the middle of the long edge (a hanging node).
    Faces never overlap (coordinates are exact), but they do not form a node-matched coverage."""
    nj = int(rng.integers(2, maxn + 1))
    ni = int(rng.integers(2, maxn + 1))
    x0, y0 = float(rng.integers(100, 150)), float(rng.integers(-40, -10))
    node = lambda j, i: j * (ni + 1) + i   # noqa: E731
    used = numpy.zeros((nj, ni), dtype=bool)
    faces = []
    for j in range(nj):
        for i in range(ni):
            if used[j, i]:
                continue
            if i + 1 < ni and not used[j, i + 1] and chance(rng, 0.4):
                used[j, i] = used[j, i + 1] = True
                if midside:
                    # the conforming variant: the long face lists the two mid-side nodes as vertices of its own, exactly on
                    # the straight line between their neighbours (integer lattice): a six-sided face, still a rectangle
                    faces.append([node(j, i), node(j, i + 1), node(j, i + 2), node(j + 1, i + 2), node(j + 1, i + 1), node(j + 1, i)])
                else:
                    faces.append([node(j, i), node(j, i + 2), node(j + 1, i + 2), node(j + 1, i)])  # middle nodes omitted
            else:
                used[j, i] = True
                faces.append([node(j, i), node(j, i + 1), node(j + 1, i + 1), node(j + 1, i)])
    xs = numpy.array([x0 + (n % (ni + 1)) for n in range((nj + 1) * (ni + 1))], dtype=float)
    ys = numpy.array([y0 + (n // (ni + 1)) for n in range((nj + 1) * (ni + 1))], dtype=float)
    keep = sorted({n for f in faces for n in f})
    remap = {old: new for new, old in enumerate(keep)}
    return Mesh([[remap[n] for n in f] for f in faces], xs[keep], ys[keep]), 'ccw'


def _merge_some_pentagons(rng, faces):
    faces = [list(f) for f in faces]
    done = set()
    result = []
    by_edge = {}
    for fi, f in enumerate(faces):
        for a, b in Mesh.pairs(f):
            by_edge.setdefault(frozenset((a, b)), []).append(fi)
    for fi, f in enumerate(faces):
        if fi in done:
            continue
        if len(f) == 3 and chance(rng, 0.5):
            for a, b in Mesh.pairs(f):
                others = [o for o in by_edge[frozenset((a, b))] if o != fi and o not in done and len(faces[o]) == 4]
                if others:
                    o = others[0]
                    ring = _boundary_ring([f, faces[o]])
                    if ring is not None and len(ring) == 5:
                        done.add(fi)
                        done.add(o)
                        result.append(ring)
                        break
            if fi in done:
                continue
        done.add(fi)
        result.append(f)
    return result


class UGridModel(Model):
    convention = 'ugrid'
    expected_class = 'UGrid'

    def native(self, kind, n):
        return (kind, n)

    def kind_token(self, kind):
        from emsarray.conventions.ugrid import UGridKind
        return UGridKind(kind)

    # -- encoding -------------------------------------------------------------------
    def _table(self, rows, width, fill_needed_value=None):
        arr = numpy.full((len(rows), width), -1, dtype=numpy.int64)
        for r, row in enumerate(rows):
            arr[r, :len(row)] = row
        return arr

    def _connectivity(self, name, rows, width, dims, key):
        """Encode one connectivity table according to self.encoding['tables'][key]."""
        e = self.encoding['tables'][key]
        arr = self._table(rows, width)
        missing = arr < 0
        start = e['start_index']
        start_num = int(start) if start is not None else 0
        attrs = {'cf_role': key + '_connectivity', 'long_name': name}
        if start is not None:
            attrs['start_index'] = start if isinstance(start, str) else numpy.int32(start)
        fill = e['fill']
        if fill == 'none' and missing.any():
            fill = 'nan'
            e['fill_effective'] = 'nan'
        values = arr + start_num
        encoding = {}
        if fill == 'nan':
            data = numpy.where(missing, numpy.nan, values.astype(float))
            encoding = {'dtype': numpy.dtype(e['dtype']), '_FillValue': e['fill_value']}
        elif fill == 'int_fill':
            data = numpy.where(missing, e['fill_value'], values).astype(e['dtype'])
            attrs['_FillValue'] = numpy.dtype(e['dtype']).type(e['fill_value'])
        else:
            data = values.astype(e['dtype'])
        if e['transposed']:
            data = data.T
            dims = (dims[1], dims[0])
        da = xarray.DataArray(data, dims=dims, attrs=attrs)
        da.encoding.update(encoding)
        return da

    def geometry_dataset(self):
        mesh, e = self.mesh, self.encoding
        nd, fd, ed, mx = e['node_dim'], e['face_dim'], e['edge_dim'], e['max_dim']
        mesh_attrs = {
            'cf_role': 'mesh_topology', 'topology_dimension': numpy.int32(2),
            'node_coordinates': 'node_x node_y', 'face_node_connectivity': 'face_nodes',
        }
        data_vars, coords = {}, {}
        data_vars['face_nodes'] = self._connectivity('face nodes', mesh.faces, mesh.max_nodes + e.get('extra_width', 0), (fd, mx), 'face_node')
        if e['tables']['face_node']['transposed'] or e['declare_face_dim']:
            mesh_attrs['face_dimension'] = fd
        sup = e['supplied']
        if 'edge_node' in sup:
            rows = [list(p) if not flip else [p[1], p[0]] for p, flip in zip(self.s_edges, e['edge_flip'])]
            data_vars['edge_nodes'] = self._connectivity('edge nodes', rows, 2, (ed, e.get('two_dim', 'Two')), 'edge_node')
            mesh_attrs['edge_node_connectivity'] = 'edge_nodes'
        if 'face_edge' in sup:
            data_vars['face_edges'] = self._connectivity('face edges', self.s_face_edges, mesh.max_nodes + e.get('extra_width', 0), (fd, mx), 'face_edge')
            mesh_attrs['face_edge_connectivity'] = 'face_edges'
        if 'edge_face' in sup:
            first = e.get('ef_fill_first') or [False] * len(self.s_edge_faces)
            # a boundary edge has one face; which of the two slots stays empty is not prescribed (left / right layouts)
            ef_rows = [[-1] + list(fs) if len(fs) == 1 and flag else list(fs) for fs, flag in zip(self.s_edge_faces, first)]
            data_vars['edge_faces'] = self._connectivity('edge faces', ef_rows, 2, (ed, e.get('two_dim', 'Two')), 'edge_face')
            mesh_attrs['edge_face_connectivity'] = 'edge_faces'
        if 'face_face' in sup:
            data_vars['face_faces'] = self._connectivity('face faces', self.s_face_faces, mesh.max_nodes + e.get('extra_width', 0), (fd, mx), 'face_face')
            mesh_attrs['face_face_connectivity'] = 'face_faces'
        if e['declare_edge_dim']:
            mesh_attrs['edge_dimension'] = ed
        xy = {'node_x': xarray.DataArray(mesh.x, dims=[nd], attrs={'standard_name': 'longitude', 'units': 'degrees_east'}),
              'node_y': xarray.DataArray(mesh.y, dims=[nd], attrs={'standard_name': 'latitude', 'units': 'degrees_north'})}
        if e['face_coords']:
            mesh_attrs['face_coordinates'] = 'face_x face_y'
            xy['face_x'] = xarray.DataArray(self.face_xy[:, 0], dims=[fd], attrs={'units': 'degrees_east'})
            xy['face_y'] = xarray.DataArray(self.face_xy[:, 1], dims=[fd], attrs={'units': 'degrees_north'})
        elif e.get('dangling_face_coordinates'):
            # the attribute survived a subsetting tool that dropped the variables it names: emsarray documents that it
            # copes with attributes naming variables that do not exist (face centres are then the centroids)
            mesh_attrs['face_coordinates'] = 'face_x face_y'
        if e['edge_coords'] and self.has_edges:
            mesh_attrs['edge_coordinates'] = 'edge_x edge_y'
            xy['edge_x'] = xarray.DataArray(self.edge_xy[:, 0], dims=[ed], attrs={'units': 'degrees_east'})
            xy['edge_y'] = xarray.DataArray(self.edge_xy[:, 1], dims=[ed], attrs={'units': 'degrees_north'})
        if e['coord_style'] == 'coord':
            coords.update(xy)
        else:
            data_vars.update(xy)
        data_vars = {'Mesh2': xarray.DataArray(numpy.int32(0), attrs=mesh_attrs), **data_vars}
        ds = xarray.Dataset(data_vars=data_vars, coords=coords)
        ds.attrs['Conventions'] = e.get('conventions_attr', 'UGRID-1.0')
        return ds


def _table_encoding(rng, *, start_index=None, fill=None, transposed=None, dtype=None):
    return {
        'start_index': pick(rng, [None, 0, 1, 1, '1', '0']) if start_index is None else (None if start_index == 'absent' else start_index),
        'fill': fill or pick(rng, ['nan', 'int_fill', 'none']),
        'transposed': chance(rng, 0.3) if transposed is None else transposed,
        'dtype': dtype or pick(rng, ['int32', 'int32', 'int64', 'int16', 'uint32']),
        'fill_value': pick(rng, [999999, -1, 9999, -999]),
    }


def make_ugrid(rng, *, mesh=None, winding=None, supplied=None, start_index=None, fill=None, transposed=None,
               coord_style=None, declare_edge_dim=None, face_coords=None, edge_coords=None, maxn=4,
               permute_edges=True, uniform_tables=None, same_mesh_rng=None, dtype=None):
    m = UGridModel()
    if mesh is None:
        mesh, winding = random_mesh(same_mesh_rng or rng, maxn=maxn, winding=winding)
    m.mesh = mesh
    m.winding = winding
    if supplied is None:
        supplied = tuple(t for t in OPTIONAL_TABLES if chance(rng, 0.5))
    supplied = tuple(supplied)
    declare_edge_dim = chance(rng, 0.5) if declare_edge_dim is None else declare_edge_dim
    if 'face_edge' in supplied and not ({'edge_node', 'edge_face'} & set(supplied)):
        declare_edge_dim = True     # a face-edge table alone neither declares nor implies an edge dimension
    has_edges = declare_edge_dim or ('edge_node' in supplied) or ('edge_face' in supplied)
    m.has_edges = has_edges
    if has_edges and not ({'edge_node', 'edge_face'} & set(supplied)):
        edge_coords = True      # the declared edge dimension must exist in the file: some variable uses it
    # edge numbering of the *supplied* tables: a random permutation of the canonical numbering
    perm = list(rng.permutation(mesh.nedge)) if permute_edges else list(range(mesh.nedge))
    perm = [int(p) for p in perm]
    m.edge_perm = perm
    m.s_edges, m.s_face_edges, m.s_edge_faces = mesh.renumber_edges(perm)
    m.s_edge_faces = [list(fs) if not chance(rng, 0.3) else list(reversed(fs)) for fs in m.s_edge_faces]
    m.s_face_faces = [sorted(fs) if chance(rng, 0.5) else sorted(fs, reverse=True) for fs in mesh.face_faces]
    uniform = chance(rng, 0.6) if uniform_tables is None else uniform_tables
    base = _table_encoding(rng, start_index=start_index, fill=fill, transposed=transposed, dtype=dtype)
    tables = {}
    for key in ('face_node',) + OPTIONAL_TABLES:
        if uniform:
            t = dict(base)
            if transposed is None:
                t['transposed'] = chance(rng, 0.3)
        else:
            t = _table_encoding(rng, start_index=start_index, fill=fill, transposed=transposed, dtype=dtype)
        if t['dtype'] == 'int16' and max(mesh.nedge, mesh.nnode, mesh.nface) > 9000:
            t['dtype'] = 'int32'
        # a fill value must lie outside the index range (otherwise the file itself is invalid)
        if t['dtype'].startswith('uint') and t['fill_value'] < 0:
            t['fill_value'] = 999999         # an unsigned table cannot hold a negative fill value
        if t['fill_value'] >= 0:
            t['fill_value'] = 999999 if t['dtype'] != 'int16' else 9999
        if str(t['start_index']) == '1' and chance(rng, 0.3):
            t['fill_value'] = 0          # the natural "no element" number of a one-based table
        elif t['fill_value'] >= 0 and chance(rng, 0.2):
            # a fill value just past the numbers the table can hold (faces for edge_face / face_face, nodes for *_node,
            # edges for face_edge): outside its own index range, possibly inside the range of another kind of element
            target = {'face_node': mesh.nnode, 'edge_node': mesh.nnode, 'face_edge': mesh.nedge,
                      'edge_face': mesh.nface, 'face_face': mesh.nface}[key]
            t['fill_value'] = int(target + (1 if str(t['start_index']) == '1' else 0) + 1 + int(rng.integers(0, 3)))
            t['fill_tight'] = True
        tables[key] = t
    # UGRID: a transposed connectivity variable is only legal when the matching *_dimension attribute is declared
    if any(tables[k]['transposed'] for k in ('edge_node', 'edge_face') if k in supplied):
        declare_edge_dim = True
    force_face_dim = any(tables[k]['transposed'] for k in ('face_node', 'face_edge', 'face_face') if k == 'face_node' or k in supplied)
    names = pick(rng, [('nMesh2_node', 'nMesh2_face', 'nMesh2_edge', 'nMaxMesh2_face_nodes'),
                       ('node', 'face', 'edge', 'max_nodes'), ('nn', 'index', 'point', 'nv')])
    m.encoding = dict(
        supplied=list(supplied), declare_edge_dim=bool(declare_edge_dim), tables=tables,
        coord_style=coord_style or pick(rng, ['var', 'var', 'coord']),
        face_coords=chance(rng, 0.5) if face_coords is None else face_coords,
        edge_coords=chance(rng, 0.3) if edge_coords is None else edge_coords,
        node_dim=names[0], face_dim=names[1], edge_dim=names[2], max_dim=names[3],
        declare_face_dim=bool(force_face_dim or chance(rng, 0.5)), winding=winding,
        edge_flip=[bool(chance(rng, 0.5)) for _ in range(mesh.nedge)],
        # UGRID does not name the dimension of length two of the edge tables: 'Two' is only customary
        two_dim=pick(rng, ['Two', 'Two', 'Two', 'two', 'nv2', 'n_bnd']),
        ef_fill_first=[bool(chance(rng, 0.3)) for _ in range(mesh.nedge)],
        # the per-face tables may be wider than the largest face needs (a file format with room for pentagons that holds
        # triangles and quadrilaterals only): one more, entirely empty, column
        extra_width=int(chance(rng, 0.2)),
    )
    if not m.encoding['face_coords'] and chance(rng, 0.15):
        m.encoding['dangling_face_coordinates'] = True
    m.kinds = {'face': Kind('face', (names[1],), (mesh.nface,)), 'node': Kind('node', (names[0],), (mesh.nnode,))}
    if has_edges:
        m.kinds['edge'] = Kind('edge', (names[2],), (mesh.nedge,))
    m.cells = [mesh.ring(f) for f in range(mesh.nface)]
    m.face_xy = numpy.array([[numpy.mean([p[0] for p in ring]), numpy.mean([p[1] for p in ring])] for ring in m.cells])
    # edge numbering seen in the file when edge_node is supplied
    m.edge_xy = numpy.array([[(mesh.x[a] + mesh.x[b]) / 2, (mesh.y[a] + mesh.y[b]) / 2] for a, b in m.s_edges])
    if m.encoding['face_coords']:
        m.centres = [tuple(map(float, m.face_xy[f])) for f in range(mesh.nface)]
        m.centre_source = 'face_coordinates'
    else:
        m.centres = [polygon_centroid(ring) for ring in m.cells]
        m.centre_source = 'centroid'
    m.derived_geometry = False
    m.extras_naming = {'time': ('time', 'time'), 'depth': ('layer_z', 'nlayers')}
    names_geo = ['Mesh2', 'face_nodes', 'node_x', 'node_y']
    for key, var in (('face_edge', 'face_edges'), ('face_face', 'face_faces'), ('edge_node', 'edge_nodes'), ('edge_face', 'edge_faces')):
        if key in supplied:
            names_geo.append(var)
    if m.encoding['edge_coords'] and has_edges:
        names_geo += ['edge_x', 'edge_y']
    if m.encoding['face_coords']:
        names_geo += ['face_x', 'face_y']
    m.geometry_names = names_geo
    return m


def polygon_centroid(ring):
    """Area-weighted centroid of a simple polygon (shoelace), own implementation."""
    a = cx = cy = 0.0
    x0, y0 = ring[0]
    for k in range(len(ring)):
        x1, y1 = ring[k][0] - x0, ring[k][1] - y0
        x2, y2 = ring[(k + 1) % len(ring)][0] - x0, ring[(k + 1) % len(ring)][1] - y0
        cross = x1 * y2 - x2 * y1
        a += cross
        cx += (x1 + x2) * cross
        cy += (y1 + y2) * cross
    if a == 0:
        return (float('nan'), float('nan'))
    return (x0 + cx / (3 * a), y0 + cy / (3 * a))


def signed_area(ring):
    a = 0.0
    for k in range(len(ring)):
        x1, y1 = ring[k]
        x2, y2 = ring[(k + 1) % len(ring)]
        a += x1 * y2 - x2 * y1
    return a / 2


def is_convex(ring):
    sign = 0
    n = len(ring)
    for k in range(n):
        ax, ay = ring[k]
        bx, by = ring[(k + 1) % n]
        cx, cy = ring[(k + 2) % n]
        cross = (bx - ax) * (cy - by) - (by - ay) * (cx - bx)
        if cross != 0:
            s = 1 if cross > 0 else -1
            if sign == 0:
                sign = s
            elif s != sign:
                return False
    return True


def all_supplied_subsets():
    out = []
    for r in range(len(OPTIONAL_TABLES) + 1):
        out.extend(itertools.combinations(OPTIONAL_TABLES, r))
    return out
