"""Model catalogue: one entry point to draw a random abstract dataset of any convention."""
from ..rng import pick
from . import grids, ugrid

CONVENTIONS = ['cf1d', 'cf2d', 'shoc_simple', 'shoc_standard', 'ugrid']


def make(rng, convention=None, **kw):
    convention = convention or pick(rng, CONVENTIONS)
    if convention == 'cf1d':
        return grids.make_cf1d(rng, **kw)
    if convention == 'cf2d':
        return grids.make_cf2d(rng, **kw)
    if convention == 'shoc_simple':
        return grids.make_cf2d(rng, shoc=True, **kw)
    if convention == 'shoc_standard':
        return grids.make_shoc_standard(rng, **kw)
    if convention == 'ugrid':
        return ugrid.make_ugrid(rng, **kw)
    raise ValueError(convention)


def make_dressed(rng, convention=None, dress=None, **kw):
    m = make(rng, convention, **kw)
    grids.dress(m, rng, **(dress or {}))
    return m
