"""Model catalogue: one entry point to draw a random abstract dataset of any convention."""
from ..rng import pick
from . import grids, ugrid

CONVENTIONS = ['cf1d', 'cf2d', 'shoc_simple', 'shoc_standard', 'ugrid']


import os as _os

# Policies are mirrored in environment variables so that fresh interpreters started by a monitor (C11 / C16) regenerate
# exactly the same datasets from the same specs.
SIZE_POLICY = {'large': _os.environ.get('VMON_LARGE') == '1'}


def set_large_sizes(flag=True):
    """Thorough tiers: every sixth dataset is drawn from a larger size range (grids to 14 x 14, meshes to ~150 faces)."""
    SIZE_POLICY['large'] = bool(flag)
    _os.environ['VMON_LARGE'] = '1' if flag else '0'


SCALE_VARIES = {'on': _os.environ.get('VMON_SCALE_VARIES') == '1'}


def set_cell_scale_varies(flag=True):
    """Every eighth dataset is a 100 m or 5 m model expressed in degrees (cells 1e-3 / 5e-5 across)."""
    SCALE_VARIES['on'] = bool(flag)
    _os.environ['VMON_SCALE_VARIES'] = '1' if flag else '0'


def make(rng, convention=None, **kw):
    if SCALE_VARIES['on'] and rng.random() < 0.125:
        with grids.cell_scale(float(pick(rng, [1e-3, 5e-5]))):
            return _make(rng, convention, **kw)
    return _make(rng, convention, **kw)


def _make(rng, convention=None, **kw):
    convention = convention or pick(rng, CONVENTIONS)
    if SIZE_POLICY['large'] and 'maxn' not in kw and rng.random() < 1 / 6:
        kw = dict(kw, maxn=10 if convention == 'ugrid' else 14)
    if convention == 'cf1d':
        return grids.make_cf1d(rng, **kw)
    if convention == 'cf2d':
        return grids.make_cf2d(rng, **kw)
    if convention == 'shoc_simple':
        return grids.make_cf2d(rng, shoc=True, **kw)
    if convention == 'shoc_standard':
        return grids.make_shoc_standard(rng, **kw)
    if convention == 'ugrid':
        return ugrid.make_ugrid(rng, **kw)
    raise ValueError(convention)


def make_dressed(rng, convention=None, dress=None, **kw):
    m = make(rng, convention, **kw)
    grids.dress(m, rng, **(dress or {}))
    if DECLARE_POLICY['x_first'] and rng.random() < 0.3:
        m.encoding['x_first'] = True     # the dataset declares x before y (see base.declare_first)
    return m


DECLARE_POLICY = {'x_first': _os.environ.get('VMON_X_FIRST') == '1'}


def set_declaration_order_varies(flag=True):
    DECLARE_POLICY['x_first'] = bool(flag)
    _os.environ['VMON_X_FIRST'] = '1' if flag else '0'
