"""Abstract models for the structured conventions: CF 1-D, CF 2-D, SHOC simple, Arakawa C / SHOC standard."""
import math

import numpy
import xarray

from ..rng import chance, pick
from .base import Kind, Model

NAN = float('nan')


# ---------------------------------------------------------------------------
# helpers
# ---------------------------------------------------------------------------

SCALE_POLICY = {'scale': 1.0}


class cell_scale:
    """with cell_scale(1e-4): ...  -> every grid / mesh generated inside has cells that much smaller (a 10 m model in
    degrees): absolute and relative tolerances that are harmless at degree scale are not at this one."""
    def __init__(self, scale):
        self.scale = scale

    def __enter__(self):
        self.old = SCALE_POLICY['scale']
        SCALE_POLICY['scale'] = self.scale

    def __exit__(self, *exc):
        SCALE_POLICY['scale'] = self.old


def _axis(rng, n, lo, descending, uniform, quantum=None):
    """n strictly monotonic coordinate values and n+1 enclosing edges (values not at edge midpoints).

    quantum: values are whole multiples of this number (1 for integer-typed coordinate variables, 0.25 for float32
    ones), so that the variable can be stored in that type without rounding and midpoints stay exact."""
    if quantum is not None:
        steps = numpy.full(n, float(rng.integers(1, 4))) if uniform else rng.integers(1, 4, size=n).astype(float)
        edges = (numpy.floor(lo / quantum) + 0.5 + numpy.concatenate([[0.0], numpy.cumsum(steps)])) * quantum
        values = edges[:-1] + 0.5 * quantum
        if descending:
            edges = edges[::-1].copy()
            values = values[::-1].copy()
        return values, edges
    if uniform:
        steps = numpy.full(n, float(rng.uniform(0.3, 1.5)))
    else:
        steps = rng.uniform(0.3, 1.5, size=n)
    steps = steps * SCALE_POLICY['scale']
    edges = lo + numpy.concatenate([[0.0], numpy.cumsum(steps)])
    frac = rng.uniform(0.25, 0.75, size=n)
    frac = numpy.where(numpy.abs(frac - 0.5) < 0.05, 0.3, frac)   # never the midpoint: "ignores stored bounds" must show
    values = edges[:-1] + frac * steps
    if descending:
        edges = edges[::-1].copy()
        values = values[::-1].copy()
    return values, edges


def midpoint_bounds(values):
    """Documented rule for a 1-D axis without stored bounds (plain loops)."""
    n = len(values)
    edges = [0.0] * (n + 1)
    edges[0] = values[0] - (values[1] - values[0]) / 2
    for i in range(1, n):
        edges[i] = (values[i] + values[i - 1]) / 2
    edges[n] = values[n - 1] + (values[n - 1] - values[n - 2]) / 2
    return [(edges[i], edges[i + 1]) for i in range(n)]


def synth_corners_2d(cx, cy):
    """Documented rule for 2-D coordinates without stored bounds, re-implemented with loops.

    A centre is discarded when it is NaN or is bounded by NaN on both sides along j or along i;
    each corner is the mean of the (up to four) surrounding remaining centres; a cell whose four
    corners are not all defined has no polygon.
    Returns list (row-major) of ring [(x,y)*4] or None.
    """
    nj, ni = cx.shape
    isn = numpy.isnan(cx) | numpy.isnan(cy)

    def nan_at(j, i):
        if j < 0 or j >= nj or i < 0 or i >= ni:
            return False
        return bool(isn[j, i])

    def discard(j, i, which):
        a = numpy.isnan(which)

        def w(jj, ii):
            if jj < 0 or jj >= nj or ii < 0 or ii >= ni:
                return False
            return bool(a[jj, ii])
        return w(j, i) or (w(j - 1, i) and w(j + 1, i)) or (w(j, i - 1) and w(j, i + 1))

    def corner_grid(values):
        grid = [[NAN] * (ni + 1) for _ in range(nj + 1)]
        for a in range(nj + 1):
            for b in range(ni + 1):
                acc = []
                for j in (a - 1, a):
                    for i in (b - 1, b):
                        if 0 <= j < nj and 0 <= i < ni and not discard(j, i, values):
                            acc.append(float(values[j, i]))
                if acc:
                    grid[a][b] = sum(acc) / len(acc)
        return grid

    gx = corner_grid(cx)
    gy = corner_grid(cy)
    cells = []
    for j in range(nj):
        for i in range(ni):
            ring = [(gx[j][i], gy[j][i]), (gx[j][i + 1], gy[j][i + 1]),
                    (gx[j + 1][i + 1], gy[j + 1][i + 1]), (gx[j + 1][i], gy[j + 1][i])]
            if isn[j, i] or any(math.isnan(v) for p in ring for v in p):
                cells.append(None)      # "a cell with missing coordinates has no polygon" (C06)
            else:
                cells.append(ring)
    return cells


import os as _os

LON_POLICY = {'wide': _os.environ.get('VMON_WIDE_LON') == '1'}


def set_wide_longitudes(flag=True):
    """Property drivers may switch on datasets in the 0..360 longitude convention / straddling 180 degrees."""
    LON_POLICY['wide'] = bool(flag)
    _os.environ['VMON_WIDE_LON'] = '1' if flag else '0'


OVERLAP_POLICY = {'on': _os.environ.get('VMON_OVERLAP') == '1'}


def set_overlapping_cells(flag=True):
    """C04 only: CF 1-D grids whose stored cell bounds reach a quarter of a cell into each neighbour (CF does not require
    bounds to be contiguous). Every other property assumes cells that do not overlap."""
    OVERLAP_POLICY['on'] = bool(flag)
    _os.environ['VMON_OVERLAP'] = '1' if flag else '0'


def lon_origin(rng):
    if LON_POLICY['wide'] and rng.random() < 0.3:
        return float(rng.uniform(172, 186)) if rng.random() < 0.4 else float(rng.uniform(200, 330))
    return float(rng.uniform(100, 150))


def lattice(rng, nj, ni, *, jitter=0.15, kind='affine'):
    """(nj+1, ni+1) node lattice under a random map; every quad stays valid."""
    jj, ii = numpy.meshgrid(numpy.arange(nj + 1, dtype=float), numpy.arange(ni + 1, dtype=float), indexing='ij')
    sx, sy = rng.uniform(0.4, 1.2, size=2) * SCALE_POLICY['scale']
    u = ii * sx
    v = jj * sy
    if jitter:
        u = u + rng.uniform(-jitter, jitter, size=u.shape) * sx
        v = v + rng.uniform(-jitter, jitter, size=v.shape) * sy
    if kind == 'plain':
        x, y = u, v
    elif kind == 'affine':
        theta = rng.uniform(-0.6, 0.6)
        shear = rng.uniform(-0.3, 0.3)
        x = math.cos(theta) * u - math.sin(theta) * v + shear * v
        y = math.sin(theta) * u + math.cos(theta) * v
    else:  # radial
        r = 3.0 * SCALE_POLICY['scale'] + v
        phi = 0.1 + 0.12 * u / SCALE_POLICY['scale']
        x = r * numpy.cos(phi)
        y = r * numpy.sin(phi)
    x0 = lon_origin(rng)
    y0 = rng.uniform(-40, -10)
    return x + x0, y + y0


def hole_mask(rng, nj, ni, style):
    """Boolean (nj, ni): True = cell removed."""
    m = numpy.zeros((nj, ni), dtype=bool)
    if style == 'none' or nj * ni < 4:
        return m
    if style == 'scatter':
        m = rng.random((nj, ni)) < 0.2
    elif style == 'line':
        if chance(rng, 0.5):
            m[int(rng.integers(nj)), :] = True
        else:
            m[:, int(rng.integers(ni))] = True
        if chance(rng, 0.5):
            m[int(rng.integers(nj)), int(rng.integers(ni))] = False
    elif style == 'block':
        j0 = int(rng.integers(0, max(1, nj - 1)))
        i0 = int(rng.integers(0, max(1, ni - 1)))
        m[j0:j0 + 2, i0:i0 + 2] = True
    elif style == 'mixed':
        m = hole_mask(rng, nj, ni, 'scatter') | hole_mask(rng, nj, ni, 'block')
    if m.all():
        m[0, 0] = False
    return m


HOLE_STYLES = ['none', 'none', 'scatter', 'line', 'block', 'mixed']


# ---------------------------------------------------------------------------
# CF 1-D
# ---------------------------------------------------------------------------

class CF1D(Model):
    convention = 'cf1d'
    expected_class = 'CFGrid1D'

    def native(self, kind, n):
        return self.kinds[kind].multi(n)

    def kind_token(self, kind):
        from emsarray.conventions.grid import CFGridKind
        return CFGridKind(kind)

    def geometry_dataset(self):
        e = self.encoding
        lat_attrs, lon_attrs = {}, {}
        ident = e['ident']
        if ident == 'units':
            lat_attrs['units'] = e.get('lat_units', 'degrees_north')
            lon_attrs['units'] = e.get('lon_units', 'degrees_east')
        elif ident == 'standard_name':
            lat_attrs['standard_name'] = 'latitude'
            lon_attrs['standard_name'] = 'longitude'
        else:
            lat_attrs['axis'] = 'Y'
            lon_attrs['axis'] = 'X'
        lat_name, lon_name = e['lat_name'], e['lon_name']
        ydim, xdim = e['ydim'], e['xdim']
        variables = {}
        if e['bounds'] != 'none':
            axes = e.get('bounds_axes', 'both')
            if axes in ('both', 'lat'):
                lat_attrs['bounds'] = lat_name + '_bnds'
                variables[lat_name + '_bnds'] = xarray.DataArray(self.lat_bounds, dims=[ydim, 'nv'])
            if axes in ('both', 'lon'):
                lon_attrs['bounds'] = lon_name + '_bnds'
                variables[lon_name + '_bnds'] = xarray.DataArray(self.lon_bounds, dims=[xdim, 'nv'])
        elif e.get('dangling_bounds'):
            # what `dataset[['temp']]` / `ncks -v temp` leave behind: the attribute names a variable that is gone
            lat_attrs['bounds'] = lat_name + '_bnds'
            lon_attrs['bounds'] = lon_name + '_bnds'
        cdt = e.get('coord_dtype', 'float64')
        assert numpy.array_equal(self.lat.astype(cdt), self.lat) and numpy.array_equal(self.lon.astype(cdt), self.lon)
        lat = xarray.DataArray(self.lat.astype(cdt), dims=[ydim], attrs=lat_attrs)
        lon = xarray.DataArray(self.lon.astype(cdt), dims=[xdim], attrs=lon_attrs)
        ds = xarray.Dataset()
        if e['coord_style'] == 'var':
            ds = ds.assign({lat_name: lat, lon_name: lon})
        else:
            ds = ds.assign_coords({lat_name: lat, lon_name: lon})
        ds = ds.assign(variables)
        if e['bounds'] == 'coord':
            ds = ds.set_coords(list(variables))
        ds.attrs['Conventions'] = 'CF-1.8'
        return ds


def make_cf1d(rng, *, ny=None, nx=None, bounds=None, coord_style=None, ident=None, maxn=6):
    m = CF1D()
    bounds = bounds or pick(rng, ['none', 'var', 'var', 'coord'])
    lo = 1 if bounds != 'none' else 2   # a one-point axis has no derivable width (outside the property)
    ny = int(ny if ny is not None else rng.integers(lo, maxn + 1))
    nx = int(nx if nx is not None else rng.integers(lo, maxn + 1))
    if bounds == 'none':
        ny, nx = max(ny, 2), max(nx, 2)
    coord_style = coord_style or pick(rng, ['dimcoord', 'dimcoord', 'coord', 'var'])
    ident = ident or pick(rng, ['units', 'standard_name', 'axis'])
    # storage type of the coordinate variables: mostly float64; sometimes an integer type (whole degrees) or float32
    coord_dtype, quantum = 'float64', None
    if SCALE_POLICY['scale'] == 1.0 and chance(rng, 0.2):
        coord_dtype = pick(rng, ['int16', 'int32', 'int64', 'float32'])
        quantum = 0.25 if coord_dtype == 'float32' else 1
    lat, lat_edges = _axis(rng, ny, rng.uniform(-40, -10), chance(rng, 0.4), chance(rng, 0.4), quantum)
    lon, lon_edges = _axis(rng, nx, lon_origin(rng), chance(rng, 0.3), chance(rng, 0.4), quantum)
    m.lat, m.lon = lat, lon
    if coord_dtype == 'int16' and (max(abs(lat).max(), abs(lon).max()) > 32000):
        coord_dtype = 'int32'         # a very long axis of whole degrees does not fit 16 bits
    # which axes carry stored bounds: both (usual), or only one of them (the other is derived from its centres)
    bounds_axes = 'both'
    if bounds != 'none' and ny >= 2 and nx >= 2 and chance(rng, 0.15):
        bounds_axes = pick(rng, ['lat', 'lon'])
    if bounds == 'none' or bounds_axes == 'lon':
        lat_b = midpoint_bounds(lat.tolist())
    else:
        lat_b = [(float(lat_edges[i]), float(lat_edges[i + 1])) for i in range(ny)]
    if bounds == 'none' or bounds_axes == 'lat':
        lon_b = midpoint_bounds(lon.tolist())
    else:
        lon_b = [(float(lon_edges[i]), float(lon_edges[i + 1])) for i in range(nx)]
    bounds_rows = 'axis'
    if bounds != 'none' and chance(rng, 0.3):
        # every row written (lower, upper) whatever the direction of the axis - the other customary way to write bounds
        bounds_rows = 'sorted'
        lat_b = [tuple(sorted(p)) for p in lat_b]
        lon_b = [tuple(sorted(p)) for p in lon_b]
    overlap = False
    if OVERLAP_POLICY['on'] and bounds != 'none' and bounds_axes == 'both' and chance(rng, 0.3):
        overlap = True

        def widen(pairs):
            out = []
            for a, b in pairs:
                h = 0.25 * (b - a)              # signed: outward whichever way the pair is written
                out.append((a - h, b + h))
            return out
        lat_b, lon_b = widen(lat_b), widen(lon_b)
    m.lat_bounds = numpy.array(lat_b)
    m.lon_bounds = numpy.array(lon_b)
    if coord_style == 'dimcoord':
        names = pick(rng, [('lat', 'lon'), ('latitude', 'longitude'), ('y', 'x')])
        lat_name, lon_name = names
        ydim, xdim = names
    else:
        lat_name, lon_name = pick(rng, [('lat', 'lon'), ('gridlat', 'gridlon')])
        ydim, xdim = pick(rng, [('y', 'x'), ('nlat', 'nlon'), ('index', 'point')])
    m.encoding = dict(bounds=bounds, coord_style=coord_style, ident=ident, lat_name=lat_name, lon_name=lon_name,
                      ydim=ydim, xdim=xdim)
    if coord_dtype != 'float64':
        m.encoding['coord_dtype'] = coord_dtype
    if bounds_axes != 'both':
        m.encoding['bounds_axes'] = bounds_axes
    if bounds_rows != 'axis':
        m.encoding['bounds_rows'] = bounds_rows
    if overlap:
        m.encoding['overlapping_cells'] = True
    if bounds == 'none' and chance(rng, 0.25):
        m.encoding['dangling_bounds'] = True
    if ident == 'units':
        m.encoding['lat_units'] = pick(rng, ['degrees_north', 'degree_north', 'degrees_N', 'degreeN'])
        m.encoding['lon_units'] = pick(rng, ['degrees_east', 'degree_E', 'degreesE'])
    m.kinds = {'face': Kind('face', (ydim, xdim), (ny, nx))}
    m.derived_geometry = bounds == 'none' or bounds_axes != 'both'
    for iy in range(ny):
        for ix in range(nx):
            a, b = lon_b[ix]
            c, d = lat_b[iy]
            m.cells.append([(a, c), (b, c), (b, d), (a, d)])
            m.centres.append((float(lon[ix]), float(lat[iy])))
    m.geometry_names = [lon_name, lat_name]
    if bounds != 'none':
        m.geometry_names += [n for n, axis in ((lon_name + '_bnds', 'lon'), (lat_name + '_bnds', 'lat')) if bounds_axes in ('both', axis)]
    m.extras_naming = {'time': ('time', 'time'), 'depth': ('depth', pick(rng, ['depth', 'k']))}
    return m


# ---------------------------------------------------------------------------
# CF 2-D and SHOC simple
# ---------------------------------------------------------------------------

class CF2D(Model):
    convention = 'cf2d'
    expected_class = 'CFGrid2D'

    def native(self, kind, n):
        return self.kinds[kind].multi(n)

    def kind_token(self, kind):
        from emsarray.conventions.grid import CFGridKind
        return CFGridKind(kind)

    def geometry_dataset(self):
        e = self.encoding
        ydim, xdim = e['ydim'], e['xdim']
        lat_name, lon_name = e['lat_name'], e['lon_name']
        lat_attrs = {'standard_name': 'latitude', 'units': 'degrees_north'}
        lon_attrs = {'standard_name': 'longitude', 'units': 'degrees_east'}
        if e.get('ident') == 'units':
            del lat_attrs['standard_name'], lon_attrs['standard_name']
        elif e.get('ident') == 'standard_name':
            del lat_attrs['units'], lon_attrs['units']
        variables = {}
        if e['bounds'] != 'none':
            lat_attrs['bounds'] = lat_name + '_bounds'
            lon_attrs['bounds'] = lon_name + '_bounds'
            variables[lat_name + '_bounds'] = xarray.DataArray(self.lat_bounds, dims=[ydim, xdim, 'nv'])
            variables[lon_name + '_bounds'] = xarray.DataArray(self.lon_bounds, dims=[ydim, xdim, 'nv'])
        elif e.get('dangling_bounds'):
            lat_attrs['bounds'] = lat_name + '_bounds'
            lon_attrs['bounds'] = lon_name + '_bounds'
        cy, cx = self.cy, self.cx
        if e.get('fortran_coords'):
            cy, cx = numpy.asfortranarray(cy), numpy.asfortranarray(cx)
        lat = xarray.DataArray(cy, dims=[ydim, xdim], attrs=lat_attrs)
        lon = xarray.DataArray(cx, dims=[ydim, xdim], attrs=lon_attrs)
        if e.get('transpose_lon'):
            # the longitude variable is stored with its two dimensions the other way round (valid CF: a variable names
            # its own dimensions); the cell (j, i) is the same cell whichever way a variable is stored
            lon = lon.transpose(xdim, ydim)
        ds = xarray.Dataset()
        if e['coord_style'] == 'var':
            ds = ds.assign({lat_name: lat, lon_name: lon})
        else:
            ds = ds.assign_coords({lat_name: lat, lon_name: lon})
        ds = ds.assign(variables)
        if e['bounds'] == 'coord':
            ds = ds.set_coords(list(variables))
        ds.attrs['Conventions'] = 'CF-1.8'
        if self.convention == 'shoc_simple':
            ds.attrs['ems_version'] = 'v1.2.3'
        return ds


class ShocSimple(CF2D):
    convention = 'shoc_simple'
    expected_class = 'ShocSimple'


def make_cf2d(rng, *, shoc=False, nj=None, ni=None, bounds=None, holes=None, coord_style=None,
              bowtie=None, maxn=6, map_kind=None):
    m = ShocSimple() if shoc else CF2D()
    bounds = bounds or pick(rng, ['var', 'var', 'none', 'coord'])
    lo = 1 if bounds != 'none' else 2
    nj = int(nj if nj is not None else rng.integers(lo, maxn + 1))
    ni = int(ni if ni is not None else rng.integers(lo, maxn + 1))
    if bounds == 'none':
        nj, ni = max(nj, 2), max(ni, 2)
    holes = holes or pick(rng, HOLE_STYLES)
    coord_style = coord_style or pick(rng, ['coord', 'coord', 'var'])
    map_kind = map_kind or pick(rng, ['affine', 'affine', 'plain', 'radial'])
    nx, ny = lattice(rng, nj, ni, kind=map_kind, jitter=0.15 if bounds != 'none' else 0.08)
    removed = hole_mask(rng, nj, ni, holes)
    cx = (nx[:-1, :-1] + nx[:-1, 1:] + nx[1:, 1:] + nx[1:, :-1]) / 4
    cy = (ny[:-1, :-1] + ny[:-1, 1:] + ny[1:, 1:] + ny[1:, :-1]) / 4
    cx = numpy.where(removed, NAN, cx)
    cy = numpy.where(removed, NAN, cy)
    m.cx, m.cy = cx, cy
    if shoc:
        ydim, xdim = 'j', 'i'
        lat_name, lon_name = pick(rng, [('latitude', 'longitude'), ('y_centre', 'x_centre')])
        ident = 'both'
    else:
        ydim, xdim = pick(rng, [('y', 'x'), ('nj', 'ni'), ('eta', 'xi'), ('index', 'point')])
        lat_name, lon_name = pick(rng, [('lat', 'lon'), ('latitude', 'longitude')])
        ident = pick(rng, ['both', 'units', 'standard_name'])
    m.encoding = dict(bounds=bounds, coord_style=coord_style, holes=holes, map=map_kind, ydim=ydim, xdim=xdim,
                      lat_name=lat_name, lon_name=lon_name, ident=ident)
    if bounds != 'none' and not shoc and chance(rng, 0.12):
        m.encoding['transpose_lon'] = True
    if chance(rng, 0.15):
        m.encoding['fortran_coords'] = True
    if bounds == 'none' and chance(rng, 0.25):
        m.encoding['dangling_bounds'] = True
    m.kinds = {'face': Kind('face', (ydim, xdim), (nj, ni))}
    m.derived_geometry = bounds == 'none'
    m.skip_cells = set()
    if bounds == 'none':
        m.cells = synth_corners_2d(cx, cy)
        # Synthesised corners collapse where a cell has no valid neighbour on one side (grid border next to a
        # hole): such zero-area rings are outside what the oracle asserts (neither polygon nor hole demanded).
        from .ugrid import signed_area
        for n, ring in enumerate(m.cells):
            if ring is not None and abs(signed_area(ring)) < 1e-6 * SCALE_POLICY['scale'] ** 2:
                m.skip_cells.add(n)
    else:
        lon_b = numpy.stack([nx[:-1, :-1], nx[:-1, 1:], nx[1:, 1:], nx[1:, :-1]], axis=-1)
        lat_b = numpy.stack([ny[:-1, :-1], ny[:-1, 1:], ny[1:, 1:], ny[1:, :-1]], axis=-1)
        # a missing cell usually lacks both coordinates; sometimes only its longitudes or only its latitudes are missing
        # (a fill value in one of the two bounds variables): it has no polygon all the same
        part = rng.random(removed.shape)
        lon_b[removed & (part >= 0.15)] = NAN
        lat_b[removed & ((part < 0.15) | (part >= 0.3))] = NAN
        if bool((removed & (part < 0.3)).any()):
            m.encoding['holes_missing_one_coordinate'] = int((removed & (part < 0.3)).sum())
        bowtie = chance(rng, 0.15) if bowtie is None else bowtie
        if bowtie and nj >= 3 and ni >= 3:
            j, i = int(rng.integers(1, nj - 1)), int(rng.integers(1, ni - 1))
            if not removed[j, i]:
                for arr in (lon_b, lat_b):
                    arr[j, i, [1, 2]] = arr[j, i, [2, 1]]
                m.invalid_cells.append(j * ni + i)
                m.encoding['bowtie'] = [j, i]
        m.lon_bounds, m.lat_bounds = lon_b, lat_b
        for j in range(nj):
            for i in range(ni):
                if removed[j, i]:
                    m.cells.append(None)
                else:
                    m.cells.append([(float(lon_b[j, i, c]), float(lat_b[j, i, c])) for c in range(4)])
    for j in range(nj):
        for i in range(ni):
            m.centres.append(None if removed[j, i] else (float(cx[j, i]), float(cy[j, i])))
    m.removed = removed
    lcx = (nx[:-1, :-1] + nx[:-1, 1:] + nx[1:, 1:] + nx[1:, :-1]) / 4
    lcy = (ny[:-1, :-1] + ny[:-1, 1:] + ny[1:, 1:] + ny[1:, :-1]) / 4
    m.hole_centres = [(float(lcx[j, i]), float(lcy[j, i])) for j in range(nj) for i in range(ni) if removed[j, i]]
    m.geometry_names = [lon_name, lat_name] + ([lon_name + '_bounds', lat_name + '_bounds'] if bounds != 'none' else [])
    if shoc:
        m.extras_naming = {'time': ('time', 'time'), 'depth': ('zc', 'k')}
    else:
        m.extras_naming = {'time': ('time', 'time'), 'depth': ('depth', pick(rng, ['depth', 'lev']))}
    return m


# ---------------------------------------------------------------------------
# Arakawa C / SHOC standard
# ---------------------------------------------------------------------------

class ShocStandard(Model):
    convention = 'shoc_standard'
    expected_class = 'ShocStandard'

    def native(self, kind, n):
        return (kind,) + self.kinds[kind].multi(n)

    def kind_token(self, kind):
        from emsarray.conventions.arakawa_c import ArakawaCGridKind
        return ArakawaCGridKind(kind)

    def geometry_dataset(self):
        coords = {}
        for kind, (yname, xname) in self.coord_names.items():
            dims = self.kinds[kind].dims
            x, y = self.coord_values[kind]
            if kind == 'face' and self.encoding.get('transpose_face_lon'):
                # the longitude of the cell centres stored with its two dimensions the other way round (named dimensions
                # make that a legal layout; the latitude variable defines the order of the grid dimensions)
                coords[xname] = xarray.DataArray(x.T.copy(), dims=dims[::-1], attrs={'units': 'degrees_east', 'long_name': 'lon of ' + kind})
                coords[yname] = xarray.DataArray(y, dims=dims, attrs={'units': 'degrees_north', 'long_name': 'lat of ' + kind})
                continue
            if self.encoding.get('fortran_coords'):
                # same values, column-major buffers (what .T of a transposed file variable, or asfortranarray, leaves behind)
                x, y = numpy.asfortranarray(x), numpy.asfortranarray(y)
            coords[xname] = xarray.DataArray(x, dims=dims, attrs={'units': 'degrees_east', 'long_name': 'lon of ' + kind})
            coords[yname] = xarray.DataArray(y, dims=dims, attrs={'units': 'degrees_north', 'long_name': 'lat of ' + kind})
        ds = xarray.Dataset()
        if self.encoding['coord_style'] == 'var':
            ds = ds.assign(coords)
        else:
            ds = ds.assign_coords(coords)
        ds.attrs['title'] = 'generated SHOC standard'
        return ds


SHOC_COORDS = {'face': ('y_centre', 'x_centre'), 'left': ('y_left', 'x_left'),
               'back': ('y_back', 'x_back'), 'node': ('y_grid', 'x_grid')}


def make_shoc_standard(rng, *, nj=None, ni=None, holes=None, coord_style=None, maxn=5, map_kind=None, transpose_face_lon=None):
    m = ShocStandard()
    nj = int(nj if nj is not None else rng.integers(1, maxn + 1))
    ni = int(ni if ni is not None else rng.integers(1, maxn + 1))
    holes = holes or pick(rng, HOLE_STYLES)
    coord_style = coord_style or pick(rng, ['coord', 'coord', 'var'])
    map_kind = map_kind or pick(rng, ['affine', 'plain', 'radial'])
    nx, ny = lattice(rng, nj, ni, kind=map_kind)
    removed = hole_mask(rng, nj, ni, holes)
    wet = ~removed
    # a node exists iff it belongs to at least one wet face (four-corner rule)
    node_ok = numpy.zeros((nj + 1, ni + 1), dtype=bool)
    for j in range(nj):
        for i in range(ni):
            if wet[j, i]:
                node_ok[j:j + 2, i:i + 2] = True
    # stray nodes: valid coordinates that belong to no complete cell (a model boundary traced one node too far)
    stray = numpy.zeros_like(node_ok)
    if holes != 'none' and chance(rng, 0.3):
        stray = (~node_ok) & (rng.random(node_ok.shape) < 0.3)
    have = node_ok | stray
    gx = numpy.where(have, nx, NAN)
    gy = numpy.where(have, ny, NAN)
    node_ok = have
    # a face has geometry iff its four nodes exist (a dry face enclosed by wet ones keeps its polygon)
    face_has_geom = node_ok[:-1, :-1] & node_ok[:-1, 1:] & node_ok[1:, 1:] & node_ok[1:, :-1]
    cx = (gx[:-1, :-1] + gx[:-1, 1:] + gx[1:, 1:] + gx[1:, :-1]) / 4
    cy = (gy[:-1, :-1] + gy[:-1, 1:] + gy[1:, 1:] + gy[1:, :-1]) / 4
    lx, ly = (gx[:-1, :] + gx[1:, :]) / 2, (gy[:-1, :] + gy[1:, :]) / 2
    bx, by = (gx[:, :-1] + gx[:, 1:]) / 2, (gy[:, :-1] + gy[:, 1:]) / 2
    m.kinds = {
        'face': Kind('face', ('j_centre', 'i_centre'), (nj, ni)),
        'left': Kind('left', ('j_left', 'i_left'), (nj, ni + 1)),
        'back': Kind('back', ('j_back', 'i_back'), (nj + 1, ni)),
        'node': Kind('node', ('j_grid', 'i_grid'), (nj + 1, ni + 1)),
    }
    m.coord_names = dict(SHOC_COORDS)
    m.coord_values = {'face': (cx, cy), 'left': (lx, ly), 'back': (bx, by), 'node': (gx, gy)}
    m.encoding = dict(holes=holes, coord_style=coord_style, map=map_kind, stray_nodes=int(stray.sum()))
    if chance(rng, 0.15):
        m.encoding['fortran_coords'] = True
    if transpose_face_lon is None:
        transpose_face_lon = chance(rng, 0.1)
    if transpose_face_lon:
        m.encoding['transpose_face_lon'] = True
    m.derived_geometry = False
    m.removed = ~face_has_geom
    lcx = (nx[:-1, :-1] + nx[:-1, 1:] + nx[1:, 1:] + nx[1:, :-1]) / 4
    lcy = (ny[:-1, :-1] + ny[:-1, 1:] + ny[1:, 1:] + ny[1:, :-1]) / 4
    m.hole_centres = [(float(lcx[j, i]), float(lcy[j, i])) for j in range(nj) for i in range(ni) if not face_has_geom[j, i]]
    for j in range(nj):
        for i in range(ni):
            if face_has_geom[j, i]:
                m.cells.append([(float(gx[j, i]), float(gy[j, i])), (float(gx[j, i + 1]), float(gy[j, i + 1])),
                                (float(gx[j + 1, i + 1]), float(gy[j + 1, i + 1])), (float(gx[j + 1, i]), float(gy[j + 1, i]))])
                m.centres.append((float(cx[j, i]), float(cy[j, i])))
            else:
                m.cells.append(None)
                m.centres.append(None)
    m.geometry_names = [n for pair in SHOC_COORDS.values() for n in pair]
    m.extras_naming = {'time': ('t', 'record'), 'depth': ('z_centre', 'k_centre')}
    return m


# ---------------------------------------------------------------------------
# common dressing: time / depth axes + variable zoo
# ---------------------------------------------------------------------------

def dress(model, rng, *, time=None, depth=None, band=None, per_kind=(1, 2), missing=0.15, dtypes=None,
          nongrid=1, permute=True, kinds=None, max_extra=3, depth_positive=None, index_dim=False):
    from .base import DTYPES, add_variables, time_axis
    extras = []
    time = chance(rng, 0.7) if time is None else time
    depth = chance(rng, 0.6) if depth is None else depth
    band = chance(rng, 0.4) if band is None else band
    naming = getattr(model, 'extras_naming', {'time': ('time', 'time'), 'depth': ('depth', 'depth')})
    if time:
        tname, tdim = naming['time']
        model.time = time_axis(rng, name=tname, dim=tdim)
        # a CF bounds variable of the time coordinate (means over an interval), listed before or after the coordinate
        model.time['bounds'] = pick(rng, [None, None, None, 'first', 'last'])
        extras.append((tdim, model.time['size']))
    if depth:
        dname, ddim = naming['depth']
        nk = int(rng.integers(2, 5))
        vals = numpy.sort(rng.uniform(0.5, 50, size=nk))
        positive = depth_positive or pick(rng, ['down', 'up'])
        if positive == 'up':
            vals = -vals
        if chance(rng, 0.5):
            vals = vals[::-1].copy()
        model.depths.append({'name': dname, 'dim': ddim, 'values': vals, 'positive': positive, 'bounds': None})
        extras.append((ddim, nk))
    if band:
        extras.append(('band', int(rng.integers(2, 4))))
    if index_dim and not any('index' in k.dims for k in model.kinds.values()):
        # a non-spatial dimension that happens to be called 'index' (a record number from pandas, say): the default name
        # of the linear dimension is then taken
        extras.append(('index', int(rng.integers(2, 4))))
    add_variables(model, rng, per_kind=per_kind, extras=extras, missing=missing, dtypes=dtypes or DTYPES,
                  nongrid=nongrid, permute=permute, kinds=kinds, max_extra=max_extra)
    if model.encoding.get('two_dim', 'Two') != 'Two' and chance(rng, 0.4):
        # the mesh calls the length-two dimension of its edge tables something else, and an unrelated variable happens to
        # use a dimension that IS called 'Two' (a pair of flags, time bounds): it has nothing to do with the mesh
        from .base import Var
        model.variables['pair_of_flags'] = Var('pair_of_flags', None, [('Two', 2)], ['Two'], model.fresh_ids((2,)), 'float64', None,
                                               attrs={'long_name': 'two numbers that have nothing to do with the mesh'})
    if GRID_MAPPING_POLICY['on'] and chance(rng, 0.3):
        # CF grid mapping: a dimensionless variable describing the coordinate reference system, named by the
        # grid_mapping attribute of data variables. It is neither a geometry variable nor defined on any grid.
        from .base import Var
        name = pick(rng, ['crs', 'latitude_longitude'])
        if name not in model.variables:
            model.variables[name] = Var(name, None, [], [], model.fresh_ids(()), 'int32', None,
                                        attrs={'grid_mapping_name': 'latitude_longitude', 'semi_major_axis': 6378137.0,
                                               'inverse_flattening': 298.257223563})
            for var in model.variables.values():
                if var.kind is not None and chance(rng, 0.7):
                    var.attrs['grid_mapping'] = name
            model.grid_mapping = name
    return model


GRID_MAPPING_POLICY = {'on': _os.environ.get('VMON_GRID_MAPPING', '1') == '1'}


def set_grid_mapping(on):
    """Some datasets carry a CF grid-mapping variable (drivers switch this on; mirrored in the environment for fresh
    interpreters)."""
    GRID_MAPPING_POLICY['on'] = bool(on)
    _os.environ['VMON_GRID_MAPPING'] = '1' if on else '0'
