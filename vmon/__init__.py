"""vmon - runtime monitors for the emsarray properties C01..C20 (see /verif/DESIGN.md)."""
import os
import sys

HERE = os.path.dirname(os.path.abspath(__file__))
VERIF = os.path.dirname(HERE)
DEPS = os.path.join(VERIF, '.deps')


def add_deps():
    """Append .deps LAST so that it can never shadow a package of /venv."""
    if os.path.isdir(DEPS) and DEPS not in sys.path:
        sys.path.append(DEPS)
