"""Deterministic random streams: (VERIF_SEED, property, case number[, purpose]) -> numpy Generator."""
import hashlib
import os

import numpy


def base_seed() -> int:
    try:
        return int(os.environ.get('VERIF_SEED', '0'))
    except ValueError:
        return 0


def _mix(*parts) -> int:
    h = hashlib.sha256('/'.join(str(p) for p in parts).encode()).digest()
    return int.from_bytes(h[:8], 'little')


def gen(seed: int, prop: str, case: int, purpose: str = '') -> numpy.random.Generator:
    return numpy.random.default_rng(_mix(seed, prop, case, purpose))


def pick(rng, seq):
    return seq[int(rng.integers(len(seq)))]


def chance(rng, p: float) -> bool:
    return bool(rng.random() < p)
