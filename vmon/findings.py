"""Known findings: committed file, read-only at run time, keyed by mechanism."""
import json
import os

from . import VERIF

PATH = os.path.join(VERIF, 'known_findings.json')


def load():
    try:
        with open(PATH) as f:
            data = json.load(f)
    except FileNotFoundError:
        return []
    return data.get('findings', [])


def open_findings(prop):
    """mechanism key -> entry, for findings of this property listed as open."""
    return {e['key']: e for e in load() if e.get('property') == prop and e.get('status') == 'open'}
