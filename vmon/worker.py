"""One shard of one property's workload; run as `python -m vmon.worker ...` by the runner."""
import argparse
import importlib
import json
import os
import sys
import time
import warnings


def main(argv=None):
    ap = argparse.ArgumentParser()
    ap.add_argument('--prop', required=True)
    ap.add_argument('--tier', required=True)
    ap.add_argument('--seed', type=int, required=True)
    ap.add_argument('--shard', type=int, default=0)
    ap.add_argument('--nshards', type=int, default=1)
    ap.add_argument('--only-case', type=int, default=None)
    ap.add_argument('--out', required=True)
    opts = ap.parse_args(argv)

    t0 = time.time()
    from vmon import add_deps, common, probes
    add_deps()
    warnings.filterwarnings('ignore', category=DeprecationWarning)
    import dask
    dask.config.set(scheduler='synchronous')

    obs = common.Obs(opts.prop, opts.tier, opts.seed)
    result = {'shard': opts.shard, 'ok': False}
    reach = None
    try:
        mod = importlib.import_module('vmon.props.' + opts.prop.lower())
        from vmon.model import set_cell_scale_varies, set_declaration_order_varies, set_large_sizes
        from vmon.model.grids import set_wide_longitudes
        set_large_sizes(opts.tier == 'thorough')
        set_declaration_order_varies(False)     # drivers switch these two on themselves
        set_wide_longitudes(False)
        from vmon.model.grids import set_overlapping_cells
        set_overlapping_cells(False)
        set_cell_scale_varies(False)
        ctx = Context(opts, obs)
        anchors = getattr(mod, 'ANCHORS', [])
        reach = probes.ReachMonitor(anchors)
        reach.start()
        cover = None
        if os.environ.get('VMON_COVER_DIR'):
            import emsarray
            cover = probes.PackageCoverage(os.path.dirname(emsarray.__file__) + os.sep)
            cover.start()
        try:
            mod.run(ctx)
        finally:
            reach.stop()
            if cover is not None:
                cover.stop()
                os.makedirs(os.environ['VMON_COVER_DIR'], exist_ok=True)
                with open(os.path.join(os.environ['VMON_COVER_DIR'], '%s-%d.json' % (opts.prop, opts.shard)), 'w') as f:
                    json.dump(sorted(cover.hit), f)
        result['ok'] = True
    except BaseException as exc:  # noqa: BLE001
        obs.harness_error('worker', exc)
    result.update(obs.dump())
    result['reach'] = reach.report() if reach is not None else {}
    result['reach_errors'] = reach.errors if reach is not None else []
    result['contract_engine'] = probes.CONTRACT_ENGINE
    result['wall_s'] = time.time() - t0
    import emsarray
    result['emsarray_file'] = emsarray.__file__
    with open(opts.out, 'w') as f:
        json.dump(result, f)
    return 0


class Context:
    def __init__(self, opts, obs):
        self.prop = opts.prop
        self.tier = opts.tier
        self.seed = opts.seed
        self.shard = opts.shard
        self.nshards = opts.nshards
        self.only_case = opts.only_case
        self.obs = obs
        self.thorough = opts.tier == 'thorough'
        import tempfile
        self.workdir = tempfile.mkdtemp(prefix='shard%d-' % opts.shard)     # under TMPDIR = /verif/.work/<run>, removed by the runner

    def n(self, quick, thorough):
        return thorough if self.thorough else quick

    def cases(self, total, stream=''):
        """Yield (case number, rng) for the cases of this shard.  A case is replayable from
        (property, seed, stream, case number) alone."""
        from vmon import rng as _rng
        for case in range(total):
            if self.only_case is not None:
                if case != self.only_case:
                    continue
            elif case % self.nshards != self.shard:
                continue
            yield case, _rng.gen(self.seed, self.prop, case, stream)

    def run_case(self, spec, fn, *args, **kwargs):
        """Run one case body; exceptions escaping it are harness errors (=> inconclusive)."""
        self.obs.begin_case(spec)
        try:
            return fn(*args, **kwargs)
        except Exception as exc:  # noqa: BLE001
            self.obs.harness_error('case', exc)
            return None


if __name__ == '__main__':
    sys.exit(main())
