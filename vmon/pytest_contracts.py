"""pytest plugin: run the repository's own test-suite with the in-situ contracts attached.

Only contract reports count (test outcomes are ignored).  Used by the thorough tiers of C03 and C07:
    pytest -p vmon.pytest_contracts  (env VMON_CONTRACT_OUT=<json path>, VMON_CONTRACT_ONLY=a,b,c)
"""
import json
import os

_obs = None


def pytest_configure(config):
    global _obs
    from vmon import add_deps, common, contracts
    add_deps()
    _obs = common.Obs('contracts-under-repo-tests', 'thorough', 0)
    _obs.begin_case({'case': -2, 'part': 'repository test-suite with contracts attached'})
    only = os.environ.get('VMON_CONTRACT_ONLY')
    contracts.attach_all(_obs, only=set(only.split(',')) if only else None)


def pytest_runtest_setup(item):
    if _obs is not None:
        _obs._case = {'case': -2, 'part': 'repository test-suite with contracts attached', 'test': item.nodeid}


def pytest_sessionfinish(session, exitstatus):
    out = os.environ.get('VMON_CONTRACT_OUT')
    if _obs is not None and out:
        with open(out, 'w') as f:
            json.dump(_obs.dump(), f)
