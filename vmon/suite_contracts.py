"""Run the repository's own tests once with contracts attached and fold the contract reports into an Obs."""
import json
import os
import subprocess
import sys
import tempfile

from . import VERIF


def run_repo_suite_with_contracts(obs, only=None, timeout=1500):
    import emsarray
    src = os.path.dirname(os.path.dirname(os.path.abspath(emsarray.__file__)))      # .../src
    root = os.path.dirname(src)
    if not os.path.isdir(os.path.join(root, 'tests')):
        root = '/repo'
    fd, out = tempfile.mkstemp(suffix='.json')
    os.close(fd)
    env = dict(os.environ, PYTHONPATH=VERIF + os.pathsep + src, VMON_CONTRACT_OUT=out)
    if only:
        env['VMON_CONTRACT_ONLY'] = only
    cmd = [sys.executable, '-m', 'pytest', '-q', '-p', 'no:cacheprovider', '-p', 'vmon.pytest_contracts', '--timeout=900',
           '--continue-on-collection-errors', '-x', '--maxfail=100000', os.path.join(root, 'tests')]
    cmd.remove('-x')
    try:
        subprocess.run(cmd, cwd=root, env=env, stdout=subprocess.DEVNULL, stderr=subprocess.DEVNULL, timeout=timeout)
    except subprocess.TimeoutExpired:
        obs.inconclusive.append('repository suite with contracts attached timed out')
        return
    try:
        with open(out) as f:
            rep = json.load(f)
    except Exception:  # noqa: BLE001
        obs.inconclusive.append('repository suite with contracts attached produced no report')
        return
    finally:
        if os.path.exists(out):
            os.remove(out)
    total = 0
    for name, n in rep['contracts'].items():
        obs.contracts['under-repo-tests:' + name] += n
        total += n
    obs.cls('contract-evaluations-under-repo-tests', total)
    obs.comparisons += rep['comparisons']
    for v in rep['violations']:
        obs.violation_count += 1
        obs.mech_counts[v.get('mech') or 'unclassified'] += 1
        if len(obs.violations) < 40:
            obs.violations.append(v)
    for h in rep['harness_errors']:
        obs.harness_errors.append(h)
