#!/bin/bash
# MANIFEST.setup_cmd: offline install of the contract library beside the repository's interpreter.
# .deps is git-ignored, so a fresh restore has to rebuild it; ./check repeats this when .deps is missing.
set -u
cd "$(dirname "$0")"
if [ ! -d .deps/icontract ]; then
  PIP_NO_INDEX=1 /venv/bin/pip install --quiet --no-index --find-links /opt/veriftools/wheels \
      --target .deps icontract >/dev/null 2>&1 || echo "setup: icontract install failed (built-in contract wrapper will be used)" >&2
fi
mkdir -p .work evidence replays
exit 0
