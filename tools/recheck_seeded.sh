#!/bin/bash
# tools/recheck_seeded.sh <seed> <worker index> <worker count> : re-run the property's quick check with another seed on
# every stored seeded change (one shared scratch worktree per worker; no suite run, no demo). Prints one line per change.
set -u
SEED="$1"; W="$2"; N="$3"
D=$(mktemp -d /tmp/recheck_XXXXXX)
git -C /repo worktree add -q --detach "$D/wt" HEAD || exit 3
i=0
for M in /verif/seeded/*/; do
  i=$((i+1)); [ $((i % N)) -eq "$W" ] || continue
  ID=$(basename "$M")
  if grep -q '"retired"' "$M/meta.json"; then echo "$ID retired"; continue; fi
  P=$(python3 -c "import json;print(json.load(open('$M/meta.json'))['property'])")
  git -C "$D/wt" checkout -q -- . ; git -C "$D/wt" clean -fdq
  if ! git -C "$D/wt" apply "$M/patch.diff" 2>/dev/null; then echo "$ID NOAPPLY"; continue; fi
  # the checks that are recorded as catching it (its own property first)
  PROPS=$(python3 -c "
import json
m=json.load(open('$M/meta.json'))
c=m.get('confirmed_by_me',{}).get('checks',{})
own=m['property']
caught=[p for p,v in c.items() if v.get('verdict')=='VIOLATION']
print(','.join([own] if own in caught or not caught else caught))")
  RES=""
  for P in ${PROPS//,/ }; do
    OUT=$(cd /verif && VERIF_SEED=$SEED VERIF_EVIDENCE_DIR=/verif/.work/evidence-scratch VERIF_REPO_SRC="$D/wt/src" VERIF_JOBS="${VERIF_JOBS:-4}" ./check "$P" --tier quick 2>&1 | tail -3)
    V=$(echo "$OUT" | grep -oE '^(VIOLATION|HELD|INCONCLUSIVE)' | head -1)
    RES="$RES $P=$V"
  done
  echo "$ID$RES"
done
git -C /repo worktree remove --force "$D/wt"; rm -rf "$D"
