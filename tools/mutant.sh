#!/bin/bash
# tools/mutant.sh <Cxx[,Cyy]> <file relative to src/emsarray> <python-regex-or-literal old> <new>   : one-line mutant on a scratch copy
set -u
PROPS="$1"; FILE="$2"; OLD="$3"; NEW="$4"
D=$(mktemp -d /tmp/mut_XXXXXX)
cp -r /repo/src "$D/src"
/venv/bin/python - "$D/src/emsarray/$FILE" "$OLD" "$NEW" <<'PY'
import sys
p, old, new = sys.argv[1:4]
s = open(p).read()
if s.count(old) < 1:
    print('MUTANT-NOT-APPLIED: pattern not found'); sys.exit(3)
open(p, 'w').write(s.replace(old, new, 1))
PY
[ $? -eq 0 ] || { rm -rf "$D"; exit 3; }
for P in ${PROPS//,/ }; do
  OUT=$(cd /verif && VERIF_EVIDENCE_DIR=/verif/.work/evidence-scratch VERIF_REPO_SRC="$D/src" ./check "$P" --tier "${TIER:-quick}" 2>&1 | tail -3)
  RC=$?
  echo "[$P] $(echo "$OUT" | grep -E 'VIOLATION|HELD|INCONCLUSIVE' | head -1) :: $(echo "$OUT" | grep -E 'violations by mechanism' | head -1 | cut -c1-200)"
done
rm -rf "$D"
