#!/bin/bash
# usage: run_suite.sh <worktree>   -- runs the repository's test-suite against <worktree>/src and reports whether all
# 371 tests that pass on the unmodified repository still pass (26 other tests fail in this sandbox regardless).
WT="$1"
OUT=$(mktemp /tmp/suite.XXXXXX.xml)
cd "$WT" && PYTHONPATH="$WT/src" /venv/bin/python -m pytest -ra -q -p no:cacheprovider --timeout=900 --continue-on-collection-errors -n 4 --junitxml="$OUT" >/dev/null 2>&1
PYTHONPATH="$WT/src" /venv/bin/python - "$OUT" <<'PY'
import json, sys, xml.etree.ElementTree as ET
base = json.load(open('/root/.vp/BASELINE.json'))
want = set(base['stable_pass'])
passed = set()
for tc in ET.parse(sys.argv[1]).getroot().iter('testcase'):
    if not any(child.tag in ('failure', 'error', 'skipped') for child in tc):
        passed.add('%s::%s' % (tc.get('classname'), tc.get('name')))
missing = sorted(want - passed)
print('suite: %d/%d baseline tests pass' % (len(want & passed), len(want)))
for m in missing[:20]:
    print('  NOW FAILING:', m)
sys.exit(1 if missing else 0)
PY
RC=$?
rm -f "$OUT"
exit $RC
