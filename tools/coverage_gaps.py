#!/venv/bin/python
"""Development aid: run the quick tier of every monitor with package-wide line recording (VMON_COVER_DIR) and list,
per function of the emsarray package, the executable lines that NO monitor executed.  Not a check; it tells the
author of the monitors where the workloads do not reach.   usage: tools/coverage_gaps.py [Cxx ...] [--tier quick]"""
import collections
import glob
import json
import os
import shutil
import subprocess
import sys

VERIF = os.path.dirname(os.path.dirname(os.path.abspath(__file__)))


def executable_lines(path):
    src = open(path).read()
    top = compile(src, path, 'exec')
    out = {}

    def walk(code, qual):
        name = qual + '.' + code.co_name if qual else code.co_name
        lines = {l for _, _, l in code.co_lines() if l is not None and l != code.co_firstlineno}
        if code.co_name != '<module>':
            out.setdefault(name, set()).update(lines)
        for c in code.co_consts:
            if hasattr(c, 'co_code'):
                walk(c, '' if code.co_name == '<module>' else name)
    walk(top, '')
    return out


def main():
    args = [a for a in sys.argv[1:] if not a.startswith('--')]
    tier = 'thorough' if '--thorough' in sys.argv else 'quick'
    props = args or ['C%02d' % i for i in range(1, 21)]
    cover = os.path.join(VERIF, '.work', 'cover')
    shutil.rmtree(cover, ignore_errors=True)
    env = dict(os.environ, VMON_COVER_DIR=cover, VERIF_EVIDENCE_DIR=os.path.join(VERIF, '.work', 'evidence-scratch'))
    for p in props:
        r = subprocess.run([os.path.join(VERIF, 'check'), p, '--tier', tier], env=env, capture_output=True, text=True)
        print(p, r.stdout.strip().splitlines()[-1][:120] if r.stdout.strip() else r.stderr[-200:])
    hit = collections.defaultdict(set)
    for f in glob.glob(os.path.join(cover, '*.json')):
        for fn, line in json.load(open(f)):
            hit[fn].add(line)
    import emsarray
    root = os.path.dirname(emsarray.__file__)
    for dirpath, _, files in sorted(os.walk(root)):
        for fname in sorted(files):
            if not fname.endswith('.py'):
                continue
            path = os.path.join(dirpath, fname)
            rel = os.path.relpath(path, root)
            funcs = executable_lines(path)
            rows = []
            for name, lines in sorted(funcs.items(), key=lambda kv: min(kv[1]) if kv[1] else 0):
                missing = sorted(lines - hit.get(rel, set()))
                if missing and lines:
                    rows.append('    %-60s %3d/%3d unreached: %s' % (name, len(lines) - len(missing), len(lines),
                                                                   'ALL' if len(missing) == len(lines) else missing))
            if rows:
                print(rel)
                print('\n'.join(rows))
    shutil.rmtree(cover, ignore_errors=True)


if __name__ == '__main__':
    main()
