#!/venv/bin/python
"""tools/triage.py Cxx [tier] [seed] - run one property in-process (1 shard) and group violations by 'what'."""
import collections, json, os, subprocess, sys, tempfile
prop = sys.argv[1]; tier = sys.argv[2] if len(sys.argv) > 2 else 'quick'; seed = sys.argv[3] if len(sys.argv) > 3 else '0'
shards = int(os.environ.get('SHARDS', '8'))
here = os.path.dirname(os.path.dirname(os.path.abspath(__file__)))
env = dict(os.environ, PYTHONPATH=here + (':' + os.environ['VERIF_REPO_SRC'] if os.environ.get('VERIF_REPO_SRC') else ''), PYTHONHASHSEED='0', MPLBACKEND='Agg', HDF5_USE_FILE_LOCKING='FALSE')
tmp = tempfile.mkdtemp(dir=os.path.join(here, '.work'))
env['TMPDIR'] = tmp
procs = []
for s in range(shards):
    out = os.path.join(tmp, 's%d.json' % s)
    procs.append((out, subprocess.Popen(['/venv/bin/python', '-m', 'vmon.worker', '--prop', prop, '--tier', tier, '--seed', seed, '--shard', str(s), '--nshards', str(shards), '--out', out], env=env, cwd=here)))
groups = collections.OrderedDict(); harness = []
tot = collections.Counter()
for out, p in procs:
    p.wait()
    r = json.load(open(out))
    tot['evaluations'] += r['evaluations']; tot['violations'] += r['violation_count']
    for v in r['violations']:
        key = (v['mech'], v['what'][:160])
        groups.setdefault(key, []).append(v)
    harness += r['harness_errors']
print(dict(tot))
for (mech, what), vs in groups.items():
    print('== [%s] %s  (x%d stored)' % (mech, what, len(vs)))
    print('   case:', json.dumps(vs[0]['case'])[:700])
    print('   detail:', json.dumps(vs[0]['detail'])[:1200])
for h in harness[:3]:
    print('HARNESS', json.dumps(h, indent=1)[:2500])
import shutil; shutil.rmtree(tmp, ignore_errors=True)
