#!/bin/bash
# tools/eval_batch.sh <batch dir> : evaluate every mutant dir in it
for M in "$1"/C*_*; do [ -f "$M/patch.diff" ] && /verif/tools/eval_seeded.sh "$M"; done
