#!/bin/bash
# tools/eval_seeded.sh <mutant dir with patch.diff, demo.py, meta.json> [checks e.g. C01,C02]
# Confirms a seeded change on a scratch copy (suite still green, demo fails with it and passes without) and runs checks on it.
set -u
M="$1"; PROPS="${2:-}"
[ -n "$PROPS" ] || PROPS=$(python3 -c "import json,sys; print(json.load(open('$M/meta.json'))['property'])")
D=$(mktemp -d /tmp/seed_XXXXXX)
git -C /repo worktree add -q --detach "$D/wt" HEAD || exit 3
if ! git -C "$D/wt" apply "$M/patch.diff" 2>/tmp/apply.err; then echo "PATCH-DOES-NOT-APPLY $(head -2 /tmp/apply.err)"; git -C /repo worktree remove --force "$D/wt"; rm -rf "$D"; exit 3; fi
SUITE=$(/verif/tools/run_suite.sh "$D/wt" | head -3 | tr '\n' ' ')
( cd "$M" && DASK_SCHEDULER=synchronous PYTHONPATH="$D/wt/src" MPLBACKEND=Agg timeout 300 /venv/bin/python demo.py >/dev/null 2>&1 ); DEMO_MUT=$?
( cd "$M" && DASK_SCHEDULER=synchronous PYTHONPATH="/repo/src" MPLBACKEND=Agg timeout 300 /venv/bin/python demo.py >/dev/null 2>&1 ); DEMO_CLEAN=$?
echo "[$(basename $(dirname $M))/$(basename $M)] $SUITE | demo clean=$DEMO_CLEAN mutant=$DEMO_MUT"
for P in ${PROPS//,/ }; do
  OUT=$(cd /verif && VERIF_EVIDENCE_DIR=/verif/.work/evidence-scratch VERIF_REPO_SRC="$D/wt/src" VERIF_JOBS="${VERIF_JOBS:-8}" ./check "$P" --tier "${TIER:-quick}" 2>&1 | tail -4)
  echo "   [$P] $(echo "$OUT" | grep -E 'VIOLATION|HELD|INCONCLUSIVE' | head -1 | cut -c1-120) :: $(echo "$OUT" | grep -E 'violations by mechanism' | head -1 | cut -c1-220)"
done
git -C /repo worktree remove --force "$D/wt"; rm -rf "$D"
