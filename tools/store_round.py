#!/usr/bin/env python3
"""Store one round of independently written seeded changes under /verif/seeded/ (development aid).

usage: tools/store_round.py <round number> <eval log> <dir holding the batch dirs> <batch prefix> [history.json]
The eval log is the output of tools/eval_batch.sh; history.json maps "<batch>/<id>" to a note on how a miss was closed.
Prints the markdown table rows for DESIGN.md section 12."""
import glob
import json
import os
import re
import shutil
import sys

rnd, log, root, prefix = sys.argv[1:5]
hist = json.load(open(sys.argv[5])) if len(sys.argv) > 5 else {}
entries = {}
cur = None
for line in open(log).read().splitlines():
    m = re.match(r'\[(%s\w+)/(C\d+_\d)\] (suite: [^|]*)\| demo clean=(\d+) mutant=(\d+)' % re.escape(prefix), line)
    if m:
        cur = (m.group(1), m.group(2))
        entries[cur] = {'suite': m.group(3).strip(), 'demo_clean_exit': int(m.group(4)), 'demo_mutant_exit': int(m.group(5)), 'checks': {}}
        continue
    m = re.match(r'\s+\[(C\d+)\] (\w+) property=\S+ (.*?) ::\s*(.*)', line)
    if m and cur:
        mm = re.search(r'violations by mechanism: (\{.*\})', m.group(4))
        entries[cur]['checks'][m.group(1)] = {'verdict': m.group(2), 'tier': 'quick', 'mechanisms': json.loads(mm.group(1)) if mm else {}}
out_root = '/verif/seeded'
rows = []
for (batch, mid), e in sorted(entries.items(), key=lambda kv: kv[0][1]):
    src = os.path.join(root, batch, mid)
    new_id = 'R%s%s_%s' % (rnd, batch[-1] if os.environ.get('STORE_BATCH_IN_ID') else '', mid)
    dst = os.path.join(out_root, new_id)
    os.makedirs(dst, exist_ok=True)
    for f in ('patch.diff', 'demo.py'):
        shutil.copy(os.path.join(src, f), os.path.join(dst, f))
    meta = json.load(open(os.path.join(src, 'meta.json')))
    out = {
        'id': new_id, 'property': meta.get('property'), 'summary': meta.get('summary'), 'needs_to_manifest': meta.get('needs'),
        'files': meta.get('files'),
        'author': 'independent sub-agent, round %s (%s): given the property text and a scratch worktree of /repo; nothing from /verif' % (rnd, batch),
        'confirmed_by_me': {
            'how': 'tools/eval_seeded.sh: fresh detached worktree of /repo HEAD, git apply patch.diff, tools/run_suite.sh (repository suite vs the 371 stable tests), demo.py with PYTHONPATH=<worktree>/src and with /repo/src (DASK_SCHEDULER=synchronous), then ./check <property> --tier quick with VERIF_REPO_SRC=<worktree>/src; worktree removed afterwards',
            'suite': e['suite'], 'demo_exit_clean_tree': e['demo_clean_exit'], 'demo_exit_with_change': e['demo_mutant_exit'], 'checks': e['checks']},
    }
    key = '%s/%s' % (batch, mid)
    if key in hist:
        out['history'] = hist[key]
    json.dump(out, open(os.path.join(dst, 'meta.json'), 'w'), indent=1)
    caught = []
    for p, c in e['checks'].items():
        if c['verdict'] == 'VIOLATION':
            caught.append('%s: %s' % (p, ', '.join(list(c['mechanisms'])[:3])))
        else:
            caught.append('%s: %s' % (p, c['verdict']))
    summ = (meta.get('summary') or '').split('. ')[0][:150].replace('|', '/').replace('\n', ' ')
    h = ' — *note*: ' + hist[key][:200].replace('|', '/') if key in hist else ''
    rows.append('| %s | %s | %s | %s%s |' % (new_id, meta.get('property'), summ, '; '.join(caught), h))
print('\n'.join(rows))
print('stored %d' % len(rows), file=sys.stderr)
