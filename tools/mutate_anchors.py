#!/venv/bin/python
"""Systematic operator-level mutation of the functions the properties are anchored in (development aid, not a check).

For every anchor 'module:qualname' of a property (vmon/props/cXX.py: ANCHORS) the function's AST is mutated one site at
a time (comparison operators, arithmetic operators, boolean operators, `not`, small integer constants, True/False,
slice bounds, subscripts 0/1/-1, sorted/sort dropped, keyword axis=) and the property's quick check is run on a scratch
copy of the package with that one mutant.  Survivors are listed for triage: equivalent mutant, code outside the
property, or a gap in the monitor.

usage: tools/mutate_anchors.py Cxx [Cyy ...] [--max-per-function N] [--jobs N] [--out FILE]
Scratch copies live under /tmp and are removed.  Nothing is written to /repo.
"""
import ast
import concurrent.futures
import copy
import importlib
import json
import os
import shutil
import subprocess
import sys
import tempfile

VERIF = os.path.dirname(os.path.dirname(os.path.abspath(__file__)))
sys.path.insert(0, VERIF)

CMP = {ast.Lt: ast.LtE, ast.LtE: ast.Lt, ast.Gt: ast.GtE, ast.GtE: ast.Gt, ast.Eq: ast.NotEq, ast.NotEq: ast.Eq,
       ast.In: ast.NotIn, ast.NotIn: ast.In, ast.Is: ast.IsNot, ast.IsNot: ast.Is}
BIN = {ast.Add: ast.Sub, ast.Sub: ast.Add, ast.Mult: ast.FloorDiv, ast.FloorDiv: ast.Mult, ast.Div: ast.Mult,
       ast.BitAnd: ast.BitOr, ast.BitOr: ast.BitAnd, ast.Mod: ast.FloorDiv}
BOOL = {ast.And: ast.Or, ast.Or: ast.And}


def find_function(tree, qual):
    node = tree
    for part in qual.split('.'):
        found = None
        for child in ast.walk(node) if node is tree else ast.iter_child_nodes(node):
            if isinstance(child, (ast.FunctionDef, ast.ClassDef, ast.AsyncFunctionDef)) and child.name == part:
                found = child
                break
        if found is None:
            return None
        node = found
    return node


def sites(func):
    """-> list of (description, path) where path identifies the node by its index in ast.walk(func) plus a variant."""
    out = []
    skip = set()
    for f in ast.walk(func):
        if isinstance(f, (ast.FunctionDef, ast.AsyncFunctionDef)):
            notes = [a.annotation for a in f.args.args + f.args.kwonlyargs + f.args.posonlyargs if a.annotation is not None]
            notes += [f.returns] if f.returns is not None else []
            notes += list(f.decorator_list)
            for n in notes:
                skip.update(id(x) for x in ast.walk(n))
        elif isinstance(f, ast.AnnAssign):
            skip.update(id(x) for x in ast.walk(f.annotation))
    for idx, node in enumerate(ast.walk(func)):
        if id(node) in skip:
            continue
        if isinstance(node, ast.Compare):
            for k, op in enumerate(node.ops):
                if type(op) in CMP:
                    out.append(('cmp %s->%s @%d' % (type(op).__name__, CMP[type(op)].__name__, node.lineno), (idx, 'cmp', k)))
        elif isinstance(node, ast.BinOp) and type(node.op) in BIN:
            # string formatting with % and path joins are not arithmetic
            if isinstance(node.op, ast.Mod) and isinstance(node.left, ast.Constant) and isinstance(node.left.value, str):
                continue
            out.append(('bin %s->%s @%d' % (type(node.op).__name__, BIN[type(node.op)].__name__, node.lineno), (idx, 'bin', 0)))
        elif isinstance(node, ast.BoolOp):
            out.append(('bool %s->%s @%d' % (type(node.op).__name__, BOOL[type(node.op)].__name__, node.lineno), (idx, 'bool', 0)))
        elif isinstance(node, ast.UnaryOp) and isinstance(node.op, ast.Not):
            out.append(('drop not @%d' % node.lineno, (idx, 'not', 0)))
        elif isinstance(node, ast.UnaryOp) and isinstance(node.op, ast.Invert):
            out.append(('drop ~ @%d' % node.lineno, (idx, 'not', 0)))
        elif isinstance(node, ast.UnaryOp) and isinstance(node.op, ast.USub) and not isinstance(node.operand, ast.Constant):
            out.append(('drop unary minus @%d' % node.lineno, (idx, 'not', 0)))
        elif isinstance(node, ast.Constant) and isinstance(node.value, bool):
            out.append(('const %s->%s @%d' % (node.value, not node.value, node.lineno), (idx, 'const', not node.value)))
        elif isinstance(node, ast.Constant) and isinstance(node.value, int) and -3 <= node.value <= 3:
            out.append(('const %d->%d @%d' % (node.value, node.value + 1, node.lineno), (idx, 'const', node.value + 1)))
            if node.value != 0:
                out.append(('const %d->%d @%d' % (node.value, node.value - 1, node.lineno), (idx, 'const', node.value - 1)))
        elif isinstance(node, ast.Call) and isinstance(node.func, ast.Attribute) and node.func.attr in ('sort', 'sorted', 'unique', 'flip') \
                and len(node.args) >= 1:
            out.append(('drop %s() @%d' % (node.func.attr, node.lineno), (idx, 'unwrap', 0)))
        elif isinstance(node, ast.Call) and isinstance(node.func, ast.Name) and node.func.id in ('sorted', 'reversed', 'abs') and node.args:
            out.append(('drop %s() @%d' % (node.func.id, node.lineno), (idx, 'unwrap', 0)))
        elif isinstance(node, ast.Attribute) and node.attr in ('T',):
            out.append(('drop .T @%d' % node.lineno, (idx, 'dropattr', 0)))
        elif isinstance(node, ast.IfExp):
            out.append(('swap if-expression arms @%d' % node.lineno, (idx, 'ifexp', 0)))
        elif isinstance(node, ast.If) and node.orelse == [] and not any(isinstance(n, ast.Raise) for n in node.body):
            out.append(('if condition forced False @%d' % node.lineno, (idx, 'iffalse', 0)))
    return out


def apply(func, path):
    idx, kind, arg = path
    node = list(ast.walk(func))[idx]
    if kind == 'cmp':
        node.ops[arg] = CMP[type(node.ops[arg])]()
    elif kind == 'bin':
        node.op = BIN[type(node.op)]()
    elif kind == 'bool':
        node.op = BOOL[type(node.op)]()
    elif kind == 'not':
        _replace(func, node, node.operand)
    elif kind == 'const':
        node.value = arg
    elif kind == 'unwrap':
        _replace(func, node, node.args[0])
    elif kind == 'dropattr':
        _replace(func, node, node.value)
    elif kind == 'ifexp':
        node.body, node.orelse = node.orelse, node.body
    elif kind == 'iffalse':
        node.test = ast.Constant(False)


def _replace(root, old, new):
    for parent in ast.walk(root):
        for field, value in ast.iter_fields(parent):
            if value is old:
                setattr(parent, field, new)
                return
            if isinstance(value, list):
                for i, v in enumerate(value):
                    if v is old:
                        value[i] = new
                        return


def make_mutants(prop, max_per_function, offset=0):
    mod = importlib.import_module('vmon.props.' + prop.lower())
    import emsarray
    root = os.path.dirname(emsarray.__file__)
    mutants = []
    seen_funcs = set()
    for spec in mod.ANCHORS:
        modname, _, qual = spec.partition(':')
        rel = modname.split('.', 1)[1].replace('.', os.sep) if '.' in modname else ''
        path = os.path.join(root, rel + '.py') if rel else os.path.join(root, '__init__.py')
        if not os.path.exists(path):
            path = os.path.join(root, rel, '__init__.py')
        src = open(path).read()
        tree = ast.parse(src)
        func = find_function(tree, qual)
        if func is None or (path, qual) in seen_funcs:
            continue
        seen_funcs.add((path, qual))
        all_sites = sites(func)
        step = max(1, len(all_sites) // max_per_function) if max_per_function else 1
        chosen = all_sites[offset % step if step > 1 else 0::step][:max_per_function] if max_per_function else all_sites
        for desc, sitepath in chosen:
            t2 = copy.deepcopy(tree)
            f2 = find_function(t2, qual)
            apply(f2, sitepath)
            ast.fix_missing_locations(t2)
            try:
                text = ast.unparse(t2)
                compile(text, path, 'exec')
            except Exception:  # noqa: BLE001
                continue
            mutants.append({'prop': prop, 'anchor': spec, 'desc': desc, 'file': os.path.relpath(path, root), 'text': text})
    return mutants


def run_one(m, jobs_per_check):
    d = tempfile.mkdtemp(prefix='mut_', dir='/tmp')
    try:
        import emsarray
        srcroot = os.path.dirname(os.path.dirname(emsarray.__file__))
        shutil.copytree(srcroot, os.path.join(d, 'src'), ignore=shutil.ignore_patterns('__pycache__', '*.egg-info'))
        with open(os.path.join(d, 'src', 'emsarray', m['file']), 'w') as f:
            f.write(m['text'])
        env = dict(os.environ, VERIF_REPO_SRC=os.path.join(d, 'src'), VERIF_JOBS=str(jobs_per_check),
                   VERIF_EVIDENCE_DIR=os.path.join(VERIF, '.work', 'evidence-scratch'))
        try:
            r = subprocess.run([os.path.join(VERIF, 'check'), m['prop'], '--tier', 'quick'], env=env, capture_output=True, text=True,
                               timeout=1500)
            out = r.stdout.strip().splitlines()
            verdict = 'VIOLATION' if r.returncode == 1 else 'HELD' if r.returncode == 0 else 'INCONCLUSIVE'
            mech = [ln for ln in out if 'violations by mechanism' in ln]
            tail = (mech[0].strip() if mech else (out[-1] if out else r.stderr[-200:]))[:260]
        except subprocess.TimeoutExpired:
            verdict, tail = 'TIMEOUT', ''
        return dict(prop=m['prop'], anchor=m['anchor'], desc=m['desc'], verdict=verdict, tail=tail)
    finally:
        shutil.rmtree(d, ignore_errors=True)


def main():
    args = sys.argv[1:]
    props, maxper, jobs, outp, offset = [], 6, 6, None, 0
    i = 0
    while i < len(args):
        if args[i] == '--max-per-function':
            maxper = int(args[i + 1]); i += 2
        elif args[i] == '--jobs':
            jobs = int(args[i + 1]); i += 2
        elif args[i] == '--out':
            outp = args[i + 1]; i += 2
        elif args[i] == '--offset':
            offset = int(args[i + 1]); i += 2
        else:
            props.append(args[i]); i += 1
    from vmon import add_deps
    add_deps()
    mutants = []
    for p in props:
        mutants += make_mutants(p, maxper, offset)
    print('%d mutants' % len(mutants), flush=True)
    results = []
    with concurrent.futures.ThreadPoolExecutor(max_workers=jobs) as ex:
        for res in ex.map(lambda m: run_one(m, 2), mutants):
            results.append(res)
            print('%-12s %s | %s | %s | %s' % (res['verdict'], res['prop'], res['anchor'].split(':')[1], res['desc'], res['tail'][:140]), flush=True)
    if outp:
        json.dump(results, open(outp, 'w'), indent=1)
    by = {}
    for r in results:
        by[r['verdict']] = by.get(r['verdict'], 0) + 1
    print('summary', by)


if __name__ == '__main__':
    main()
