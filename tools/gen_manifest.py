#!/usr/bin/env python3
"""Regenerates /verif/MANIFEST.json from the table below (kept in one place so it stays valid)."""
import json
import os

HERE = os.path.dirname(os.path.dirname(os.path.abspath(__file__)))

RM = 'runtime monitoring: '
NOTE = ('Held = held on the executions observed (see evidence: evaluations, distinct cases, input-class counters, contract '
        'evaluations, lines reached in the anchored functions). Trusted: numpy, xarray container semantics, GEOS predicates via '
        'shapely, netCDF4/HDF5, the harness generators and oracles. ')

CHECKS = {
    'C01': dict(
        technique=RM + 'reference-model monitor at the API boundary (exhaustive per-dataset index sweep, expected-error events) + sys.monitoring reach monitor',
        text='Every linear index of every grid kind of 1000 (quick) / 80 000 (thorough) generated datasets (some declaring x before y) of all conventions is wound and ravelled by the real code while a monitor compares with row-major integer arithmetic on the abstract model; out-of-range linear and native indexes must raise; the deprecated unravel_index alias must agree. Also observed: grid_shape, grid_dimensions, get_grid_kind and the deprecated get_grid_kind_and_size / unravel_index, explicit latitude= / longitude= construction.',
        note=NOTE + 'Grids up to ~6x6 / ~40 mesh faces (thorough: every sixth dataset up to 14x14 / ~150 faces).', ref='DESIGN.md §5 C01'),
    'C02': dict(
        technique=RM + 'cross-accessor reference-model monitor with self-identifying values (polygons, centres, ravel, select_index, STRtree) + in-situ icontract post-conditions + reach monitor',
        text='For every cell of generated datasets (holes, skewed geometry, permuted dimension orders) the polygon, centre, flattened values, selected values and spatial-index hits observed from the real API are compared with the abstract model; every stored value is a unique id, so any permutation or shift is visible from one observation.',
        note=NOTE + 'Derived geometry (CF grids without bounds) compared within 1e-9; zero-area synthesised cells are not asserted.', ref='DESIGN.md §5 C02'),
    'C03': dict(
        technique=RM + 'reference-model monitor on ravel/wind + in-situ icontract post-conditions on utils.ravel_dimensions / wind_dimension (fire inside every workload) + reach monitor',
        text='ravel / wind are driven over all conventions x kinds x variables with 0-3 extra dims in random permutations, default/custom/colliding linear names, winding by axis / name / default with the linear axis at every position; results compared bit-for-bit with the model canonical arrays and with a moveaxis+reshape reference inside the contract. Also: the deprecated make_linear alias, variables with only part of a grid refused, a linear dimension named after a flattened grid dimension.',
        note=NOTE + 'A custom linear name colliding with an existing dimension may be refused; only returned values are checked then.', ref='DESIGN.md §5 C03'),
    'C04': dict(
        technique=RM + 'brute-force oracle monitor at the API boundary (GEOS intersects over the model polygon array) + reach monitor',
        text='Tens of thousands of query points (interiors, exact shared vertices where up to 6 cells tie, shared edges, hole interiors, just outside, far outside) are looked up through get_index_for_point / select_point and compared with the minimum linear index among all model polygons intersecting the point. Also: CF 1-D grids whose stored cell bounds overlap their neighbours (a point on the edge of a lower-indexed cell inside a higher-indexed one).',
        note=NOTE + 'For CF grids without stored bounds the brute force runs over the (1e-9-verified) emsarray polygon array, because boundary points are undecidable from a model that is only 1e-9-close.', ref='DESIGN.md §5 C04'),
    'C05': dict(
        technique=RM + 'reference-model monitor with self-identifying values over select_index(es) / select_point(s) / extract_points / extract_dataframe incl. expected-error events + reach monitor',
        text='Index lists (repeats, shuffled, every grid kind, custom dimension names) and point lists (hits, boundary hits, misses) under policies error / drop / fill are selected through the real API and compared value-for-value, row-for-row with the model; absence of other-kind and geometry variables is asserted; NonIntersectingPoints must name exactly the misses. Also: selector_for_index, tables with gappy / reversed / offset / RangeIndex-slice indexes, documented defaults relied on, a variable added after the first selection. Also: per-cell time stamp / duration variables under fill (NaT for misses), datasets beyond 180 degrees east, selections keep the stored data type.',
        note=NOTE + 'Nothing asserted for variables without a grid dimension, for drop/fill with every point missing, or for caller-chosen dimension names that collide with dataset dimensions.', ref='DESIGN.md §5 C05'),
    'C06': dict(
        technique=RM + 'reference-model monitor on polygons / mask / bounds / geometry + warning capture + in-situ contract on make_polygons_with_holes + reach monitor (both bounds branches of each topology class must be entered)',
        text='Bare geometry datasets in every coordinate layout the generators know (stored vs derived bounds, bounds/coordinates as variables or xarray coordinates, units/standard_name/axis identification, holes, bow-tie cells, masked node grids, all mesh encodings) are opened by the real code; every polygon, the validity mask, InvalidPolygonWarning, bounds and overall geometry are compared with the model.',
        note=NOTE + 'Rings compared modulo start vertex and direction; stored 1-D bounds are contiguous; invalid cells are interior (bounds not asserted when one reaches outside the hull); meshes may carry orphan nodes; CF 1-D coordinates may be stored as integers / float32, CF 2-D longitude may be stored transposed.', ref='DESIGN.md §5 C06'),
    'C07': dict(
        technique=RM + 'exhaustive enumeration as workload for the mask primitives under in-situ icontract post-conditions (loop references) + end-to-end reference-model monitor on make_clip_mask + monotonicity monitor on recorded outputs + reach monitor',
        text='(i) every boolean array up to 4x4 (thorough; quick: up to 9 elements + random 4x4) through blur_mask (size 0..3), smear_mask, c_mask_from_centres, each call checked by a contract; (ii) make_clip_mask for buffers 0..3 over all conventions and ~14 geometry classes vs brute-force GEOS selection, own Chebyshev dilation / node-sharing rings / rank renumbering; (iii) enlarging geometry or buffer never unmarks. Also: buffer argument omitted (documented default 0), selections with one-cell gaps, primitives on column-major and strided arrays, the file\'s own edge numbering as oracle.',
        note=NOTE + 'Polygon fidelity is C06, mesh table normalisation C10. The evidence flag exhaustive refers to the primitive sweep of the thorough tier only.', ref='DESIGN.md §5 C07'),
    'C08': dict(
        technique=RM + 'history + reference-model monitor with self-identifying values (clip directly, or make mask -> save -> reload -> apply to a twin dataset) + in-situ mask contracts + reach monitor',
        text='Clips of generated datasets of all conventions (float/int/int+_FillValue/int+missing_value variables on every kind, dims in any order, meshes with all 16 table subsets, in memory or via netCDF) are loaded and every output value is compared with the model: selected cells unchanged, unselected cells in the extent missing, unmaskable integers cropped but unaltered, non-grid variables, coordinates and attributes unchanged. Also: buffer omitted, gap selections, Python-int missing_value, the fill-value declaration must survive clipping.',
        note=NOTE + 'Values compared numerically after CF decoding; empty selections not asserted.', ref='DESIGN.md §5 C08'),
    'C09': dict(
        technique=RM + 'history + reference-model monitor on the clipped dataset (class, save/reopen, polygons, independently decoded connectivity, raw on-disk dtype via netCDF4, select_variables) + reach monitor',
        text='After each clip of the C08 workload the result must be the same convention, save with ems.to_netcdf and reopen as such, keep exactly the original polygon of every selected cell (explicit geometry) and invent none, carry every input connectivity table restricted to survivors and renumbered by rank with index base / dimension order / integer type preserved; select_variables keeps class, polygons and geometry variables (also on the unclipped dataset).',
        note=NOTE + 'CF grids without stored bounds: class, centres, reopening only. Datasets carry a time axis.', ref='DESIGN.md §5 C09'),
    'C10': dict(
        technique=RM + 'one abstract mesh / many encodings: reference-model monitor on Mesh2DTopology tables vs a pure-python mesh model + reach monitor on every make_*_array',
        text='Each random mesh (3..8-sided convex/concave faces) is encoded in a covering sample (quick) or the full 1152-encoding product (thorough) of start_index x fill x orientation x supplied-table subsets x edge-dimension declaration x coordinate storage; normalised face-node, supplied tables (used as given, permuted edge order) and derived tables are compared with the model. Also: fill values just past the index range of the table itself.',
        note=NOTE + 'Transposed tables come with the *_dimension attribute UGRID requires; cross-numbering checks only between tables that share a numbering.', ref='DESIGN.md §5 C10'),
    'C14': dict(
        technique=RM + 'reference-model monitor on triangulate_dataset with exact rational arithmetic on an integer-lattice face family (count, membership, containment, pairwise interior overlap, area sum) + reach monitor',
        text='triangulate_dataset is run on generated datasets of every convention (with holes) and on free-standing lattice faces (convex, L/U/T/staircase, stars, exactly collinear vertices, CW/CCW, 3..8 sides, integer linear maps, a float-rotated family); per cell: n-2 triangles made of the cell\'s vertices, inside the cell, pairwise non-overlapping (exact separating-axis test), areas summing exactly to the cell area; holes have none; vertex rows unique and indexes valid. Also: a second triangulation after the caller modified the first result in place.',
        note=NOTE + 'Exact Fractions on the lattice family, GEOS covers / 1e-9 relative elsewhere; cells with skip_cells not asserted.', ref='DESIGN.md §5 C14'),
    'C15': dict(
        technique=RM + 'round-trip monitor: files written by the real exporters are read back with independent readers (json, pyshp, shapely.from_wkt/from_wkb) and compared with the abstract model; mechanism classifier for the known 6-decimal rounding + reach monitor',
        text='write_geojson / write_shapefile / write_wkt / write_wkb on generated datasets of all conventions (holes, dropped bow-tie cells, multi-kind native indexes); feature count, order, coordinates, recorded linear index and native index (which must ravel back to the same cell) are compared with the model.',
        note=NOTE + 'Open known finding text-format-6dp-rounding (GeoJSON and WKT round to 6 decimals) is reported as KNOWN-FINDING by a per-feature predicate; any other coordinate difference is a violation. Shapefile rings compared modulo start/direction (format prescribes winding).', ref='DESIGN.md §5 C15'),
    'C18': dict(
        technique=RM + 'reference-model monitor on Transect (segments, points, transect_dataset, prepared data) with 1-D interval arithmetic along the path, metric-free monotonicity, and the documented metric recomputed with cartopy/pyproj only; mechanism classifier for the known shared-edge double count + reach monitor',
        text='Thousands of simple polylines (through, inside, starting outside, zig-zag across holes, along shared and border edges, re-entering, missing) over generated grids and meshes; per segment: inside its cell and on the path, consistent linear/native index and polygon, start <= end, sorted; union of segments == path inside the model; reported distances monotone in path position and equal to the recomputed geodesic metric; lengths conserved; prepared data columns hold the ids of the segment cells at every depth. Also: Transect without a depth argument (smallest depth coordinate, layer interfaces listed first), stored / made-up depth bounds of the transect dataset. Also: prepared variables that carry a positive attribute of their own.',
        note=NOTE + 'cfunits is replaced by a stand-in (axis labels only; the real one needs the absent udunits2 library). Distances checked against the metric emsarray documents (geodesic through cartopy PlateCarree->geodetic conversion), tolerance 1e-6 relative + 1 mm. Open known finding shared-edge-double-count.', ref='DESIGN.md §5 C18'),
    'C19': dict(
        technique=RM + 'reference-model monitor on matplotlib artists (PolyCollection paths/array/clim, Quiver X/Y/U/V, animation frames) under the Agg backend with self-identifying values + expected-error events + reach monitor',
        text='make_poly_collection (by name / by array / reduced datasets, overrides array / clim / transform), make_quiver and animate_on_figure on generated datasets with and without holes: one patch per cell with geometry in linear order with that cell\'s outline and value, default clim = range of the plotted values, arrows at face centres with the components of the same cell, leftover dimensions and array+data refused. Also: make_quiver(transform=) override, make_patch_collection alias, plot_on_figure scalar + vector.',
        note=NOTE + 'No rendering, no coastline data. Variables on non-face kinds are not asserted (statement silent).', ref='DESIGN.md §5 C19'),
    'C11': dict(
        technique=RM + 'history + executable sequential model (binding histories with id() as unique values, enumerated exhaustively to a bounded length), executable restatement of the detection rule over datasets and near-misses, fresh-interpreter runs under several PYTHONHASHSEED values + reach monitor',
        text='(a) get_dataset_convention / .ems on generated datasets, shuffled copies and 27 kinds of near-miss vs a restated rule, also in fresh interpreters with hash seeds 0/1/4242/random; (b) register_convention of 1-3 dummy conventions in every order (specificity, manual-before-entry-point, earlier-first ties), registry saved/restored per case; (c) ALL legal op sequences up to length 5 (quick) / 7 (thorough) over {access, construct+bind, shallow/deep copy, access on copy, bind copy} plus random ones to length 20, checked against a per-handle bound-object model. Also: detection unchanged after explicit constructions with options and after the accessor was used on the original; Conventions attribute as a list of strings; bind() once more on the attached object refused.',
        note=NOTE + 'A tie between two built-in conventions is not ordered, only checked for consistency. exhaustive in the evidence refers to the bounded history enumeration.', ref='DESIGN.md §5 C11'),
    'C12': dict(
        technique=RM + 'reference-model monitor with self-identifying values on ocean_floor (accessor and function) + in-situ icontract post-condition on _find_ocean_floor_indexes + reach monitor',
        text='Datasets of all conventions with statically floored depth variables (0..K wet layers per column, gaps above the floor), positive up/down (any letter case, or absent), deep-first/shallow-first storage, 1-2 depth coordinates, depth dimension at every position, variables on several grid kinds and without depth: every reduced variable is compared bit-for-bit with the id of the physically deepest wet layer computed from the model; depth dimension and coordinates gone, everything else unchanged. Also: bathymetry variables with depth-like attributes on every grid kind left alone; multi-dimensional coordinates carrying the depth dimension reduced like variables.',
        note=NOTE + 'Within the documented assumption of a static floor per (depth axis, spatial dims) group; order of remaining dimensions and the fate of depth-bounds variables are counted, not asserted.', ref='DESIGN.md §5 C12'),
    'C13': dict(
        technique=RM + 'reference-model monitor with self-identifying layers on normalize_depth_variables for all nine option pairs, applied once and twice, with deep input snapshots (purity) + reach monitor',
        text='For 2-8 level monotonic depth coordinates (attribute up/down in any case or absent, with/without bounds, dimension coordinate / non-index coordinate / plain variable, several coordinates per dataset) every clause is checked: attribute and values agree with the request, ordering as requested, bounds rows travel and flip with their layer, every data id still sits at its original physical depth, f(f(x)) == f(x), unset options change nothing, input untouched. Also: dataset.ems.depth_coordinates asserted to be exactly the generated depth coordinates; unset options sometimes simply not passed.',
        note=NOTE + 'Coordinates without attribute avoid 0 and mixed signs so the documented majority-sign guess is unambiguous.', ref='DESIGN.md §5 C13'),
    'C16': dict(
        technique=RM + 'equivalence-class monitor: make_cache_key on a dataset and on constructed twins (22 invariant edits, 12 sensitive single geometry edits, netCDF round trips, fresh interpreters with different hash seeds) + mechanism classifier for the known marshal finding + reach monitor',
        text='Same key demanded for edits of non-geometry content, rebuilt twins, reopened files and other processes; different key demanded for each single geometry edit (1 ulp, dtype, shape with same bytes, rename, attribute add/change/remove, different convention class). Also: key-neutral edits include one time step picked by number and added scalar / auxiliary non-geometry coordinates.',
        note=NOTE + 'Open known finding marshal-object-identity is reported as KNOWN-FINDING only when the harness fingerprint and a canonical re-serialisation of the attributes agree; sensitive edits must also change the canonical key so marshal noise cannot mask a miss.', ref='DESIGN.md §5 C16'),
    'C17': dict(
        technique=RM + 'exhaustive enumeration as workload of composed time-unit strings (true instant known by construction) under an in-situ icontract post-condition with an independent parser + file round-trip monitor (emsarray.open_dataset and raw netCDF4) + reach monitor',
        text='(1) format_time_units_for_ems on strings composed from period x 105 UTC offsets (-12:00..+14:00 by 15 min) x 7 writing styles x 9 epochs (leap day, year/day boundaries, year < 1000): output must have the EMS form and denote the same instant for the harness parser AND for cftime; thorough enumerates all 33 255 strings; (2) ems.to_netcdf / to_netcdf_with_fixes on datasets of all conventions (with and without time axis, from memory or from disk): same convention, polygons, values, decoded instants after reopening; EMS-form units with the right instant and no invented _FillValue on disk. Also: a single time slice (scalar time coordinate), another time-like variable before the SHOC record variable, geometry used before saving. Also: time coordinates with a CF bounds variable, records at fractions of the unit (doubles on disk), time units named by the caller through the encoding argument.',
        note=NOTE + 'Inputs restricted to styles that cftime itself reads as the composed instant. The exhaustive flag refers to the units grid of the thorough tier.', ref='DESIGN.md §5 C17'),
    'C20': dict(
        technique=RM + 'differential monitor CLI vs library at the file level (in-process emsarray.cli.main with captured exit status / stderr, plus a python -m emsarray subprocess sample) + composed-grammar monitor on geometry_argument / bounds_argument + expected-error events + reach monitor',
        text='clip / extract-points / export-geometry are run on generated datasets of every convention on disk and the output files compared (variables, dims, attributes, raw values; bytes for geometry formats) with the corresponding library call; bounds strings composed from four numbers must give exactly box(a,b,c,d), composed non-bounds strings must never become a box, GeoJSON text/files must equal shape(obj); user errors must exit non-zero with a message and no output file. Also: the file read back is compared with the dataset the library call returns (not only with the file the library writes); blank coordinate cells, entirely empty records, white space around GeoJSON text, numeric _FillValue for missing coordinates. Also: output names that merely end in the letters of a known format must be refused; datasets whose time coordinate has a bounds variable.',
        note=NOTE + 'If the library call itself raises, only the CLI failure mode is asserted. Leading/trailing blanks and arguments starting with "-" are not asserted. Subprocess sample runs with the synchronous dask scheduler.', ref='DESIGN.md §5 C20'),
}

PENDING_REASON = 'monitor not built yet in this session (planned, see DESIGN.md §5); will be claimed once its check runs clean on the unchanged tree'


def main():
    props = [json.loads(line) for line in open(os.path.join(HERE, 'properties.jsonl'))]
    checks, na = [], []
    for p in props:
        pid = p['id']
        c = CHECKS.get(pid)
        if c is None:
            na.append({'property_id': pid, 'reason': PENDING_REASON})
            continue
        checks.append({
            'property_id': pid,
            'quick_cmd': './check %s --tier quick' % pid,
            'thorough_cmd': './check %s --tier thorough' % pid,
            'evidence_file': 'evidence/%s.json' % pid,
            'replay_cmd_template': './check %s --replay {path}' % pid,
            'engine': 'vmon',
            'level_claimed': {'category': 'exploration', 'text': c['text'], 'design_ref': c['ref']},
            'level_note': c['note'],
            'technique': c['technique'],
        })
    manifest = {
        'version': 1,
        'setup_cmd': './setup.sh',
        'hooks': {
            'guard': 'EMSARRAY_VERIF',
            'enable': 'no instrumentation lives in /repo: ./check exports EMSARRAY_VERIF=1 and the harness attaches contracts / sys.monitoring probes from outside by rebinding module attributes',
            'baseline_off_cmd': './baseline.sh',
            'source_commits': [],
            'add_only': True,
        },
        'engines': [{
            'name': 'vmon', 'path': 'vmon/',
            'serves_properties': sorted(CHECKS),
            'kind_free_text': 'runtime monitors: generated hostile workloads drive the real emsarray API; reference-model oracles, in-situ icontract post-conditions and a sys.monitoring reach monitor observe the executions',
        }],
        'checks': checks,
        'notes': 'Exit codes: 0 held on everything observed, 1 violation (VIOLATION line + replay file), 2 inconclusive (monitor saw too little / watchdog / harness error). Known findings live in known_findings.json.',
        'not_applicable': na,
    }
    with open(os.path.join(HERE, 'MANIFEST.json'), 'w') as f:
        json.dump(manifest, f, indent=1)
    print('MANIFEST: %d checks, %d not applicable' % (len(checks), len(na)))


if __name__ == '__main__':
    main()
