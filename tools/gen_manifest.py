#!/usr/bin/env python3
"""Regenerates /verif/MANIFEST.json from the table below (kept in one place so it stays valid)."""
import json
import os

HERE = os.path.dirname(os.path.dirname(os.path.abspath(__file__)))

TECH = 'runtime monitoring'

CHECKS = {
    'C01': dict(
        technique='runtime monitoring: reference-model monitor at the API boundary (exhaustive per-dataset index sweep) + sys.monitoring reach monitor',
        text='Every linear index of every grid kind of several hundred (quick) / ~12000 (thorough) generated datasets of all conventions is wound and ravelled by the real code while a monitor compares with row-major integer arithmetic on the abstract model; out-of-range indexes must raise. Held = held on the executions observed.',
        note='Trusted: numpy integer arithmetic, xarray Dataset.sizes, the harness generators. Grids up to ~6x6 / ~40 mesh faces.',
        ref='DESIGN.md §5 C01'),
}

PENDING_REASON = 'monitor not built yet in this session (planned, see DESIGN.md §5); will be claimed once its check runs clean on the unchanged tree'


def main():
    props = [json.loads(line) for line in open(os.path.join(HERE, 'properties.jsonl'))]
    checks, na = [], []
    for p in props:
        pid = p['id']
        c = CHECKS.get(pid)
        if c is None:
            na.append({'property_id': pid, 'reason': PENDING_REASON})
            continue
        checks.append({
            'property_id': pid,
            'quick_cmd': './check %s --tier quick' % pid,
            'thorough_cmd': './check %s --tier thorough' % pid,
            'evidence_file': 'evidence/%s.json' % pid,
            'replay_cmd_template': './check %s --replay {path}' % pid,
            'engine': 'vmon',
            'level_claimed': {'category': 'exploration', 'text': c['text'], 'design_ref': c['ref']},
            'level_note': c['note'],
            'technique': c['technique'],
        })
    manifest = {
        'version': 1,
        'setup_cmd': './setup.sh',
        'hooks': {
            'guard': 'EMSARRAY_VERIF',
            'enable': 'no instrumentation lives in /repo: ./check exports EMSARRAY_VERIF=1 and the harness attaches contracts / sys.monitoring probes from outside by rebinding module attributes',
            'baseline_off_cmd': './baseline.sh',
            'source_commits': [],
            'add_only': True,
        },
        'engines': [{
            'name': 'vmon', 'path': 'vmon/',
            'serves_properties': sorted(CHECKS),
            'kind_free_text': 'runtime monitors: generated hostile workloads drive the real emsarray API; reference-model oracles, in-situ icontract post-conditions and a sys.monitoring reach monitor observe the executions',
        }],
        'checks': checks,
        'notes': 'Exit codes: 0 held on everything observed, 1 violation (VIOLATION line + replay file), 2 inconclusive (monitor saw too little / watchdog / harness error). Known findings live in known_findings.json.',
        'not_applicable': na,
    }
    with open(os.path.join(HERE, 'MANIFEST.json'), 'w') as f:
        json.dump(manifest, f, indent=1)
    print('MANIFEST: %d checks, %d not applicable' % (len(checks), len(na)))


if __name__ == '__main__':
    main()
