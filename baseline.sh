#!/bin/bash
# Runs the repository's own suite with the verification guard OFF and compares with BASELINE.json's stable_pass list.
unset EMSARRAY_VERIF
OUT=$(mktemp /tmp/baseline.XXXXXX.xml)
cd /repo && /venv/bin/python -m pytest -ra -q -p no:cacheprovider --timeout=900 --continue-on-collection-errors \
    -n "${BASELINE_JOBS:-8}" --junitxml="$OUT" >/dev/null 2>&1
/venv/bin/python - "$OUT" <<'PY'
import json, sys, xml.etree.ElementTree as ET
base = json.load(open('/root/.vp/BASELINE.json'))
want = set(base['stable_pass'])
passed = set()
for tc in ET.parse(sys.argv[1]).getroot().iter('testcase'):
    if not any(child.tag in ('failure', 'error', 'skipped') for child in tc):
        passed.add('%s::%s' % (tc.get('classname'), tc.get('name')))
missing = sorted(want - passed)
print('baseline: %d/%d stable tests pass, %d other tests pass' % (len(want & passed), len(want), len(passed - want)))
for m in missing[:20]:
    print('  NOT PASSING:', m)
sys.exit(1 if missing else 0)
PY
RC=$?
rm -f "$OUT"
exit $RC
